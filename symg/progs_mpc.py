"""Program families for the MPC-compiler checks (C01, C02, C03, C04)."""
import random

from . import gen
from .cctypes import T
from .prog import CB, single_graph

MODES = ["simple", "depth_default", "depth_extreme"]
OUTSIDE = ["bit-level protocols in the thorough tier also at 16 bits (probed: A2B 88 s, B2A 25 s); private x private MixedMultiply is decided only by cvc5 after ~15 min and is left to C04/C05-style structural checks",
           "wide-type instances on which the solver gives no answer within the cap while the 8-bit instances of the same template are unsat are printed as NOT-DECIDED, counted under not_decided_wide_instances and are not part of the claim",
           "bit-level protocols (A2B/B2A/private MixedMultiply/compiled Sort) at scalar widths above 8 bits (16 thorough)",
           "array shapes above 8 elements, rank above 3, composition depth above 6",
           "Truncate (C05), Join (not applicable, see DESIGN §6), custom ops with approximate semantics (C20)"]


def A(shape, st):
    return T.scalar(st) if shape == () else T.array(shape, st)


# ---------------------------------------------------------------- single-operation / fixed templates (ring)
def ring_templates():
    t = {}

    def reg(name, ishapes, f):
        t[name] = (ishapes, f)

    reg("add", [(2,), (2,)], lambda g, x: g.add(x[0], x[1]))
    reg("sub", [(2,), (2,)], lambda g, x: g.sub(x[0], x[1]))
    reg("sub_bcast", [(2, 2), (2,)], lambda g, x: g.sub(x[1], x[0]))
    reg("mul", [(2,), (2,)], lambda g, x: g.mul(x[0], x[1]))
    reg("mul_scalar", [(), (2, 2)], lambda g, x: g.mul(x[0], x[1]))
    reg("mul_bcast", [(2, 1), (1, 2)], lambda g, x: g.mul(x[0], x[1]))
    reg("dot_vv", [(3,), (3,)], lambda g, x: g.dot(x[0], x[1]))
    reg("dot_mv", [(2, 2), (2,)], lambda g, x: g.dot(x[0], x[1]))
    reg("dot_tm", [(2, 1, 2), (2, 2)], lambda g, x: g.dot(x[0], x[1]))
    reg("matmul_mm", [(2, 2), (2, 2)], lambda g, x: g.matmul(x[0], x[1]))
    reg("matmul_vm", [(2,), (2, 3)], lambda g, x: g.matmul(x[0], x[1]))
    reg("matmul_bm", [(2, 1, 2), (2, 2)], lambda g, x: g.matmul(x[0], x[1]))
    reg("gemm_ft", [(2, 3), (2, 3)], lambda g, x: g.gemm(x[0], x[1], False, True))
    reg("gemm_tf", [(3, 2), (3, 2)], lambda g, x: g.gemm(x[0], x[1], True, False))
    reg("gemm_tt", [(2, 2), (2, 2)], lambda g, x: g.gemm(x[0], x[1], True, True))
    reg("sum_all", [(2, 3)], lambda g, x: g.sum(x[0], [0, 1]))
    reg("sum_ax", [(2, 3)], lambda g, x: g.sum(x[0], [0]))
    reg("cumsum", [(3, 2)], lambda g, x: g.cumsum(x[0], 0))
    reg("permute", [(2, 3)], lambda g, x: g.permute_axes(x[0], [1, 0]))
    reg("get", [(2, 3)], lambda g, x: g.get(x[0], [1]))
    reg("get_slice", [(4, 2)], lambda g, x: g.get_slice(x[0], [(None, None, -2), "..."]))
    reg("reshape", [(2, 3)], lambda g, x: g.reshape(x[0], T.array((3, 2), ST)))
    reg("stack", [(2,), ()], lambda g, x: g.stack([x[0], x[1]], [2]))
    reg("concat", [(2, 2), (1, 2)], lambda g, x: g.concat([x[0], x[1]], 0))
    reg("tuple", [(2,), ()], lambda g, x: g.tuple_get(g.tuple([x[0], x[1]]), 1))
    reg("tuple_out", [(2,), ()], lambda g, x: g.tuple([g.mul(x[0], x[1]), x[1]]))
    reg("ntuple_out", [(2,), (2,)], lambda g, x: g.ntuple([("a", g.add(x[0], x[1])), ("b", g.mul(x[0], x[1]))]))
    reg("vector_out", [(2,), (2,)], lambda g, x: g.vector([g.mul(x[0], x[1]), x[1]], T.array((2,), ST)))
    reg("a2v_v2a", [(3, 2)], lambda g, x: g.v2a(g.a2v(x[0])))
    reg("zip", [(2, 2), (2,)], lambda g, x: g.zip([g.a2v(x[0]), g.a2v(x[1])]))
    reg("repeat", [(2,)], lambda g, x: g.v2a(g.repeat(x[0], 3)))
    reg("vector_get", [(3, 2)], lambda g, x: g.vector_get(g.a2v(x[0]), g.const(T.scalar("u64"), "2")))
    # compositions named by the property text
    reg("mul_add_mul", [(2,), (2,), (2,)], lambda g, x: g.mul(g.add(g.mul(x[0], x[1]), x[2]), x[2]))
    reg("mul_mul", [(2,), (2,), (2,)], lambda g, x: g.mul(g.mul(x[0], x[1]), x[2]))
    reg("mul_slice", [(2, 2), (2, 2)], lambda g, x: g.get_slice(g.mul(x[0], x[1]), [(None, None, None), 0]))
    reg("mul_sum_mul", [(2, 2), (2, 2), (2,)], lambda g, x: g.mul(g.sum(g.mul(x[0], x[1]), [0]), x[2]))
    reg("mul_two_consumers", [(2,), (2,)], lambda g, x: (lambda p: g.add(g.mul(p, x[0]), g.sub(p, x[1])))(g.mul(x[0], x[1])))
    reg("mul_bcast_consumer", [(2,), (2,), (2, 2)], lambda g, x: g.add(g.mul(x[0], x[1]), x[2]))
    reg("dup_subexpr", [(2,), (2,)], lambda g, x: g.add(g.mul(x[0], x[1]), g.mul(x[0], x[1])))
    reg("const_fold", [(2,)], lambda g, x: g.mul(x[0], g.add(g.const(T.array((2,), ST), ["3", "5"]), g.ones(T.array((2,), ST)))))
    reg("pub_minus_priv", [(2,), (2,)], lambda g, x: g.sub(g.const(T.array((2,), ST), ["7", "1"]), g.mul(x[0], x[1])))
    reg("matmul_chain", [(2, 2), (2, 2), (2,)], lambda g, x: g.matmul(g.matmul(x[0], x[1]), x[2]))
    reg("dot_stack", [(2,), (2,)], lambda g, x: g.stack([g.dot(x[0], x[1]), g.sum(x[0], [0])], [2]))
    # a private operand broadcast against a LARGER public one, followed by a shape-sensitive share-wise op
    for opn in ("add", "sub", "mul"):
        for flip in (False, True):
            for post, pf in (("sum0", lambda g, r: g.sum(r, [0])), ("cumsum0", lambda g, r: g.cumsum(r, 0)), ("get1", lambda g, r: g.get(r, [1])),
                             ("reshape", lambda g, r: g.reshape(r, T.array((3, 2), ST))), ("perm", lambda g, r: g.permute_axes(r, [1, 0]))):
                def mk(opn=opn, flip=flip, pf=pf):
                    return lambda g, x: pf(g, getattr(g, opn)(x[1], x[0]) if flip else getattr(g, opn)(x[0], x[1]))
                reg("bcast_%s%s_%s" % (opn, "_flip" if flip else "", post), [(3,), (2, 3)], mk())
                FORCED["T:bcast_%s%s_%s" % (opn, "_flip" if flip else "", post)] = [[0, "public"], ["shared", "public"], ["public", 2]]
    reg("dot_rank3", [(2, 2), (2, 2, 2)], lambda g, x: g.dot(x[0], x[1]))
    reg("dot_rank3_v", [(2,), (2, 2, 3)], lambda g, x: g.dot(x[0], x[1]))
    return t


FORCED = {}


ST = "?st"


def fix_types(j, st):
    """templates write scalar type ST; fill in st"""
    if isinstance(j, dict):
        return {k: fix_types(v, st) for k, v in j.items()}
    if isinstance(j, list):
        return [fix_types(v, st) for v in j]
    return st if j == ST else j


def instantiate_template(name, spec, st):
    ishapes, f = spec
    in_types = [A(s, st) for s in ishapes]

    def build(g):
        xs = [g.input(t) for t in in_types]
        return f(g, xs)

    prog = fix_types(single_graph(build), st)
    return prog, in_types


def call_wrapped(prog_builder, st, kind, length=3):
    """wrap a 2-input ring body in Call / Iterate so that inlining modes matter"""
    c = CB()
    body = c.graph()
    if kind == "call":
        a = body.input(A((2,), st))
        b = body.input(A((2,), st))
        body.set_output(body.add(body.mul(a, b), a))
        g = c.graph()
        x, y = g.input(A((2,), st)), g.input(A((2,), st))
        r = g.call(body, [x, y])
        r2 = g.call(body, [r, y])
        g.set_output(g.mul(r2, x))
        return c.to_json(), [A((2,), st), A((2,), st)]
    if kind == "iterate_assoc":
        # associative, NON-commutative body (composition of affine maps x -> a*x+b), declared AssociativeOperation:
        # in DepthOptimized modes the inliner uses prefix-sum trees (segment tree for length >= 16)
        s = body.input(A((2,), st))
        e = body.input(A((2,), st))
        sa, sb = body.get(s, [0]), body.get(s, [1])
        ea, eb = body.get(e, [0]), body.get(e, [1])
        ns = body.stack([body.mul(sa, ea), body.add(body.mul(sa, eb), sb)], [2])
        body.set_output(body.tuple([ns, s]))
        body.ann = ["AssociativeOperation"]
        g = c.graph()
        x = g.input(A((2,), st))
        v = g.input(A((length, 2), st))
        it = g.iterate(body, x, g.a2v(v))
        g.set_output(g.tuple([g.tuple_get(it, 0), g.v2a(g.tuple_get(it, 1))]))
        return c.to_json(), [A((2,), st), A((length, 2), st)]
    # iterate: state s, input e -> (s*e + e, s)
    s = body.input(A((2,), st))
    e = body.input(A((2,), st))
    ns = body.add(body.mul(s, e), e)
    body.set_output(body.tuple([ns, s]))
    g = c.graph()
    x = g.input(A((2,), st))
    v = g.input(A((length, 2), st))
    it = g.iterate(body, x, g.a2v(v))
    g.set_output(g.tuple([g.tuple_get(it, 0), g.v2a(g.tuple_get(it, 1))]))
    return c.to_json(), [A((2,), st), A((length, 2), st)]


def pick_configs(n_inputs, k, seed, count, ordered=False):
    """covering choice of (owners, outs, mode): rotates through all owner vectors, output
    sets and modes so that over templates every value appears"""
    ovs = gen.owner_vectors(n_inputs)
    # skip the all-public vector most of the time (compiles to the plaintext graph)
    outs = gen.output_sets(ordered)
    rng = random.Random(seed * 7919 + k)
    cfgs = []
    base = rng.randrange(len(ovs))
    for i in range(count):
        ov = ovs[(base + i * 37) % len(ovs)]
        if all(o == "public" for o in ov) and rng.random() < 0.7:
            ov = ovs[(base + i * 37 + 1) % len(ovs)]
        cfgs.append((list(ov), outs[(k + i * 3 + seed) % len(outs)], MODES[(k + i + seed) % 3]))
    return cfgs


def ring_types(k, seed, tier):
    wide = ["bit", "u16", "i32", "u64", "i64", "i128", "u128", "i16", "u32"]
    narrow = ["i8", "u8"]
    if tier == "quick":
        return [narrow[(k + seed) % 2], wide[(k + seed) % len(wide)]]
    return narrow + wide


def gen_cases(tier, seed, purpose="c01"):
    cases = []
    k = 0
    n_cfg = 3 if tier == "quick" else 12
    for name, spec in ring_templates().items():
        for st in ring_types(k, seed, tier):
            prog, in_types = instantiate_template(name, spec, st)
            cfgs = pick_configs(len(in_types), k, seed, n_cfg, ordered=(tier == "thorough"))
            for fi, ov in enumerate(FORCED.get("T:" + name, [])):
                if tier == "thorough" or (fi + k + seed) % 3 == 0 or fi == 0:
                    cfgs.append((ov, gen.output_sets()[(k + fi + seed) % 8], MODES[(k + fi) % 3]))
            cfgs = cfgs[-(n_cfg + 1):] if name.startswith("bcast_") and tier == "quick" else cfgs
            for owners, outs, mode in cfgs:
                k += 1
                cases.append(dict(id="T:%s:%s:%s:%s:%s" % (name, st, "".join(str(o)[0] for o in owners), "".join(map(str, outs)) or "-", mode),
                                  template="T:" + name, st=st, prog=prog, in_types=[t.to_json() for t in in_types],
                                  owners=owners, outs=outs, mode=mode, kind="ring", vseed=seed * 1000 + k, ref="S"))
    # Call / Iterate wrappers: all three inline modes for each
    for kind in ("call", "iterate"):
        for st in ring_types(k, seed, tier):
            prog, in_types = call_wrapped(None, st, kind)
            cfgs = pick_configs(len(in_types), k, seed, n_cfg, ordered=False)
            for owners, outs, _ in cfgs:
                for mode in MODES:
                    k += 1
                    cases.append(dict(id="W:%s:%s:%s:%s:%s" % (kind, st, "".join(str(o)[0] for o in owners), "".join(map(str, outs)) or "-", mode),
                                      template="W:" + kind, st=st, prog=prog, in_types=[t.to_json() for t in in_types],
                                      owners=owners, outs=outs, mode=mode, kind="ring", vseed=seed * 1000 + k, ref="S"))
    # associative Iterate through the prefix-sum inliners (length 17 crosses the segment-tree switch)
    for st in ["u8"] + (["i64"] if tier == "thorough" else []):
        prog, in_types = call_wrapped(None, st, "iterate_assoc", length=17)
        # the vector operand is public: with two private operands the 17 chained protocol products expand to 3^17 monomials
        for ci, (owners, outs) in enumerate([([1, "public"], [2]), (["shared", "public"], [])]):
            for mode in MODES:
                k += 1
                cases.append(dict(id="W:iterate_assoc17:%s:%s:%s:%s" % (st, "".join(str(o)[0] for o in owners), "".join(map(str, outs)) or "-", mode),
                                  template="W:iterate_assoc17", st=st, prog=prog, in_types=[t.to_json() for t in in_types], owners=owners, outs=outs, mode=mode,
                                  kind="ring", vseed=seed * 1000 + k, ref="S", n_evals=1, timeout=300))
    # random compositions
    n_rand = 40 if tier == "quick" else 200
    depth = (3, 6) if tier == "quick" else (3, 9)
    for r in range(n_rand):
        rs = seed * 100003 + r
        for st in ring_types(r, seed, "quick"):
            rng = random.Random(rs)
            rp = gen.RandProg(rng, st, max_elems=8)
            n_in = rng.choice([2, 2, 3])
            for _ in range(n_in):
                rp.new_input(A(rng.choice([s for s in gen.SHAPES if gen.nelem(s) <= 6]), st))
            rp.grow(rng.randint(*depth), weights=dict(elementwise=6, contract=2))
            # output: last value, or a tuple of the last two
            if rng.random() < 0.3 and len(rp.vals) >= 2:
                out = rp.g.tuple([rp.vals[-1][0], rp.vals[-2][0]])
            else:
                out = rp.vals[-1][0]
            prog = rp.finish(out)
            for owners, outs, mode in pick_configs(n_in, r, seed, 2 if tier == "quick" else 6):
                k += 1
                cases.append(dict(id="R:%d:%s:%s:%s:%s" % (rs, st, "".join(str(o)[0] for o in owners), "".join(map(str, outs)) or "-", mode),
                                  template="R:%d" % rs, st=st, prog=prog, in_types=[t.to_json() for t in rp.in_types],
                                  owners=owners, outs=outs, mode=mode, kind="ring", vseed=seed * 1000 + k, ref="S", may_reject=True,
                                  ops=rp.ops_used))
    if purpose == "c01":
        cases += bits8_cases(tier, seed, k)
        cases += concrete_only_cases(tier, seed, k + 1000)
    elif purpose == "c02":
        # three-view on the bit-level protocols (B2A's extra key exchange, A2B's resharing); thorough configurations
        # are cheap here (1-10 s each); the known-finding configuration is C01's
        cases += [c for c in bits8_cases("thorough", seed, k) if "key" not in c and (tier == "thorough" or c.get("real_st", "u8") == "u8")]
    return cases


def concrete_only_cases(tier, seed, k0):
    """bit-level protocols the solver cannot decide (wide A2B/B2A, private x private MixedMultiply and chains,
    compiled Sort): SAMPLED differential - the real evaluator on the compiled graph vs the real evaluator on the
    source graph on boundary/random vectors, several sharings and PRNG seeds. Counted separately in the evidence."""
    cases = []
    bt = bool_templates()
    k = k0
    plan = [("a2b", ["i32", "u64", "i128"]), ("b2a", ["u32", "i64", "u128"]), ("a2b_b2a_sum", ["i64", "u128"]), ("mixed_mul", ["u8", "i64", "i128"]),
            ("mixed_mul_chain", ["u8", "i64"]), ("sort", ["u8", "i64"]), ("apply_perm", ["i64", "u128"])]
    for name, sts in plan:
        for st in (sts if tier == "thorough" else sts[:2]):
            prog, in_types = instantiate_bool(name, bt[name], st)
            cfgs = pick_configs(len(in_types), k, seed, 2 if tier == "quick" else 6)
            for owners, outs, mode in cfgs:
                if name == "apply_perm":
                    owners = [owners[0], "public"]
                k += 1
                cases.append(dict(id="X:%s:%s:%s:%s:%s" % (name, st, "".join(str(o)[0] for o in owners), "".join(map(str, outs)) or "-", mode), template="X:" + name, st="bit", real_st=st,
                                  prog=prog, in_types=[t.to_json() for t in in_types], owners=owners, outs=outs, mode=mode, kind="bits", vseed=seed * 1000 + k, ref="S",
                                  concrete_only=True, n_evals=4 if tier == "quick" else 12))
    return cases


def bits8_cases(tier, seed, k0):
    """bit-level protocols at 8 bits whose monolithic query finishes (probed): A2B, B2A, A2B(x+y)->B2A,
    shared-bit AND/XOR, compiled ApplyPermutation with a public permutation; plus the known-finding
    configuration (private permutation operand)."""
    cases = []
    bt = bool_templates()
    plan = [("a2b_b2a_sum", [[0, 1], ["shared", "shared"], [2, "public"]]), ("bit_and_xor", [[0, 1, 2], ["shared", 1, "public"]]),
            ("apply_perm", [[0, "public"], ["shared", "public"]]), ("b2a", [[1], ["shared"]]), ("a2b", [["shared"]])]
    k = k0
    for st in (["u8"] if tier == "quick" else ["u8", "i16"]):
        for name, ovs in plan:
            prog, in_types = instantiate_bool(name, bt[name], st)
            for owners in (ovs if tier == "thorough" else ovs[:2]):
                k += 1
                outs = gen.output_sets()[(k + seed) % 8]
                # st stays "u8"-like for the phase logic: these are decided monolithically, never skipped
                cases.append(dict(id="B:%s:%s:%s:%s:simple" % (name, st, "".join(str(o)[0] for o in owners), "".join(map(str, outs)) or "-"), template="B:%s:%s" % (name, st), st="u8" if st == "u8" else "bit",
                                  real_st=st, prog=prog, in_types=[t.to_json() for t in in_types], owners=owners, outs=outs, mode=["simple", "depth_default"][k % 2], kind="bits",
                                  vseed=seed * 1000 + k, ref="S", timeout=400 if st == "u8" else 1200))
    prog, in_types = instantiate_bool("apply_perm", bt["apply_perm"], "u8")
    cases.append(dict(id="B:apply_perm:u8:01:2:simple", template="B:apply_perm_private", st="u8", prog=prog, in_types=[t.to_json() for t in in_types], owners=[0, 1], outs=[2], mode="simple",
                      kind="bits", vseed=seed, ref="S", timeout=200, key="apply_perm|private-permutation-operand"))
    return cases


def bounds(tier):
    return dict(sampled_concrete_differential="bit-level protocols beyond the solver's reach (A2B/B2A at 32..128 bits, private x private MixedMultiply and chains, compiled Sort, ApplyPermutation on wide data): real evaluator on compiled vs source graph on 4 (quick) / 12 (thorough) vectors each - SAMPLED, counted as concrete_only_*",
                bit_level_protocols_at_8_bits="A2B, B2A, A2B(x+y)->B2A, shared-bit AND/XOR, compiled ApplyPermutation (public permutation): monolithic queries, 2 configurations each",
                ring_templates=len(ring_templates()), random_compositions=40 if tier == "quick" else 200,
                scalar_types="8-bit twin + one of bit,u16,i16,i32,u32,u64,i64,u128,i128 per template (quick) / all (thorough)",
                max_elements=8, max_rank=3, composition_ops="3..6 (quick) / 3..9 (thorough)",
                owner_vectors="covering rotation over {0,1,2,public,shared}^n, n<=3", output_sets="all 8 subsets (ordered variants in thorough)",
                inline_modes=MODES)


# ---------------------------------------------------------------- programs with bit-level protocols
def bool_templates():
    """name -> (input types builder(st) , body). These reach A2BMPC/B2AMPC (binary adders over shares),
    private MixedMultiply (oblivious transfer), TruncateMPC2K, the permutation/sort protocols."""
    t = {}

    def reg(name, in_types, f):
        t[name] = (in_types, f)

    reg("a2b", lambda st: [A((2,), st)], lambda g, x, st: g.a2b(x[0]))
    reg("b2a", lambda st: [A((2, bits(st)), "bit")], lambda g, x, st: g.b2a(x[0], st))
    reg("a2b_b2a_sum", lambda st: [A((2,), st), A((2,), st)], lambda g, x, st: g.b2a(g.a2b(g.add(x[0], x[1])), st))
    reg("mixed_mul", lambda st: [A((2,), st), A((2,), "bit")], lambda g, x, st: g.mixed_mul(x[0], x[1]))
    reg("mixed_mul_chain", lambda st: [A((2,), st), A((2,), "bit"), A((2,), st)], lambda g, x, st: g.mul(g.mixed_mul(x[0], x[1]), x[2]))
    reg("bit_and_xor", lambda st: [A((3,), "bit"), A((3,), "bit"), A((3,), "bit")], lambda g, x, st: g.add(g.mul(x[0], x[1]), x[2]))
    reg("truncate_pow2", lambda st: [A((2,), st)], lambda g, x, st: g.truncate(x[0], 4))
    reg("truncate_after_mul", lambda st: [A((2,), st), A((2,), st)], lambda g, x, st: g.truncate(g.mul(x[0], x[1]), 2))
    reg("apply_perm", lambda st: [A((3,), st), A((3,), "u64")], lambda g, x, st: g.apply_permutation(x[0], x[1]))
    reg("sort", lambda st: [T.ntuple([("k", A((3, 2), "bit")), ("v", A((3,), st))])], lambda g, x, st: g.sort(x[0], "k"))
    return t


def bits(st):
    from .cctypes import st_bits
    return st_bits(st)


def instantiate_bool(name, spec, st):
    tys, f = spec
    in_types = tys(st)

    def build(g):
        xs = [g.input(t) for t in in_types]
        return f(g, xs, st)

    return single_graph(build), in_types
