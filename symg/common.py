"""Shared check scaffolding: tiers, seeds, evidence, known findings, exit codes."""
import hashlib
import json
import multiprocessing as mp
import os
import sys
import time

VERIF = os.path.dirname(os.path.dirname(os.path.abspath(__file__)))
EVIDENCE_DIR = os.path.join(VERIF, "evidence")
REPLAY_DIR = os.path.join(VERIF, "replays")
KNOWN_FILE = os.path.join(VERIF, "known_findings.txt")


def tier():
    t = os.environ.get("VERIF_TIER", "quick")
    return t if t in ("quick", "thorough") else "quick"


def seed():
    try:
        return int(os.environ.get("VERIF_SEED", "0"))
    except ValueError:
        return 0


def nworkers():
    try:
        return int(os.environ.get("VERIF_WORKERS", "16"))
    except ValueError:
        return 16


def load_known():
    """lines: 'known: property=<id> key=<key> <text>'   (fixed: lines suppress nothing)"""
    out = {}
    if not os.path.exists(KNOWN_FILE):
        return out
    for line in open(KNOWN_FILE):
        line = line.strip()
        if not line.startswith("known:"):
            continue
        parts = line.split()
        pid = key = None
        for p in parts:
            if p.startswith("property="):
                pid = p[len("property="):]
            if p.startswith("key="):
                key = p[len("key="):]
        if pid and key:
            out.setdefault(pid, {})[key] = line[len("known:"):].strip()
    return out


class Check:
    def __init__(self, pid, level):
        self.pid = pid
        self.level = level
        self.tier = tier()
        self.seed = seed()
        self.t0 = time.time()
        self.cov = {}
        self.samples = []
        self.assumptions = []
        self.violations = []  # dict(key, text, replay(dict))
        self.inconclusive = []
        self.counts = {}
        self.solver_secs = 0.0
        self.functions = []
        self.bounds = {}
        self.outside = []
        self.stdout_lines = []

    def count(self, k, n=1):
        self.counts[k] = self.counts.get(k, 0) + n

    def sample(self, s, cap=6):
        if len(self.samples) < cap:
            self.samples.append(s)

    def violation(self, key, text, replay):
        self.violations.append(dict(key=key, text=text, replay=replay))

    def inconc(self, text):
        self.inconclusive.append(text)

    def write_replay(self, v):
        os.makedirs(REPLAY_DIR, exist_ok=True)
        blob = json.dumps(v["replay"], sort_keys=True)
        h = hashlib.sha1(blob.encode()).hexdigest()[:12]
        path = os.path.join(REPLAY_DIR, "%s_%s.json" % (self.pid, h))
        with open(path, "w") as f:
            json.dump(dict(property=self.pid, key=v["key"], text=v["text"], replay=v["replay"]), f, indent=1)
        return path

    def finish(self, coverage):
        """coverage: dict for evidence 'coverage'. Prints verdict lines, writes evidence,
        exits."""
        known = load_known().get(self.pid, {})
        new_v = []
        seen_known = {}
        for v in self.violations:
            if v["key"] in known:
                seen_known.setdefault(v["key"], v)
            else:
                new_v.append(v)
        for k, v in sorted(seen_known.items()):
            print("KNOWN-FINDING: %s" % known[k])
        # de-duplicate new violations by key
        uniq = {}
        for v in new_v:
            uniq.setdefault(v["key"], v)
        for n, (k, v) in enumerate(sorted(uniq.items())):
            if n >= 25:
                print("... %d further violations not written out" % (len(uniq) - 25))
                break
            path = self.write_replay(v)
            print("VIOLATION property=%s replay=%s" % (self.pid, path))
            print("  " + v["text"][:600])
        for t in self.inconclusive[:20]:
            print("INCONCLUSIVE: %s" % t[:400])
        wall = time.time() - self.t0
        cov = dict(coverage)
        cov.setdefault("samples", self.samples or ["(none)"])
        cov["functions_encoded"] = self.functions
        cov["bounds"] = self.bounds
        cov["outside_bounds"] = self.outside
        cov["counts"] = self.counts
        cov["solver_secs"] = round(self.solver_secs, 2)
        cov["known_findings_seen"] = sorted(seen_known.keys())
        cov["inconclusive"] = len(self.inconclusive)
        ev = dict(property_id=self.pid, tier=self.tier, seed=self.seed, level=self.level,
                  coverage=cov, assumptions=self.assumptions, wall_s=round(wall, 2),
                  violations=len(uniq))
        os.makedirs(EVIDENCE_DIR, exist_ok=True)
        with open(os.path.join(EVIDENCE_DIR, "%s.json" % self.pid), "w") as f:
            json.dump(ev, f, indent=1, default=str)
        print("%s: tier=%s seed=%d wall=%.1fs counts=%s" % (self.pid, self.tier, self.seed, wall,
                                                           json.dumps(self.counts, sort_keys=True)))
        if uniq:
            sys.exit(1)
        if self.inconclusive:
            sys.exit(2)
        sys.exit(0)


def pool_map(fn, items, workers=None):
    workers = workers or nworkers()
    if not items:
        return []
    if workers <= 1 or len(items) == 1:
        return [fn(x) for x in items]
    ctx = mp.get_context("fork")
    with ctx.Pool(min(workers, len(items))) as pool:
        return pool.map(fn, items, chunksize=1)


def model_to_dict(model):
    out = {}
    if model is None:
        return out
    for d in model.decls():
        v = model[d]
        try:
            out[d.name()] = v.as_long()
        except Exception:
            out[d.name()] = str(v)
    return out


def safe_analyze(default):
    """decorator for pool workers: an unexpected exception inside the analysis of one case must not crash
    the check; the case is reported as inconclusive (status 'internal_error') with the traceback"""
    import functools
    import traceback

    def deco(fn):
        @functools.wraps(fn)
        def wrapped(args):
            try:
                return fn(args)
            except Exception:  # noqa
                out = default(args)
                out["status"] = "internal_error"
                out["note"] = traceback.format_exc()[-700:]
                return out
        return wrapped
    return deco
