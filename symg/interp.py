"""Symbolic / concrete interpreter for dumped ciphercore graphs.

The semantics of every primitive operation is written here from the documentation of
ciphercore_base::graphs (NumPy semantics, arithmetic modulo 2^w); structural operations
delegate to numpy on object arrays whose elements are z3 bit-vector terms (sym=True) or
Python ints (sym=False).  It is an implementation independent of the Rust evaluator; it is
tied to the evaluator by translator validation (validate.py) and by the Kani kernels.
"""
import numpy as np
import z3

from .cctypes import T, st_bits, st_signed


class Unsupported(Exception):
    pass


class Arr:
    """scalar (a.shape == ()) or array value; elements: z3 BitVec(w) or int in [0,2^w)."""

    __slots__ = ("st", "a")

    def __init__(self, st, a):
        self.st = st
        self.a = a

    @property
    def w(self):
        return st_bits(self.st)

    @property
    def shape(self):
        return self.a.shape

    def flat(self):
        return list(self.a.reshape(-1)) if self.a.shape != () else [self.a[()]]

    def __repr__(self):
        return "Arr(%s%s)" % (self.st, list(self.a.shape))


def oarr(x, shape=None):
    """make an object ndarray from a (nested) list / single element without numpy
    trying to iterate z3 expressions."""
    if isinstance(x, np.ndarray) and x.dtype == object:
        return x
    if shape is None:
        o = np.empty((), dtype=object)
        o[()] = x
        return o
    o = np.empty(int(np.prod(shape, dtype=np.int64)) if len(shape) else 1, dtype=object)
    for i, e in enumerate(x):
        o[i] = e
    return o.reshape(shape)


def wrap(r):
    """numpy returns a bare element for 0-d results; re-wrap."""
    if isinstance(r, np.ndarray):
        return r
    return oarr(r)


def leaves(v):
    if isinstance(v, Arr):
        return [v]
    out = []
    for x in v:
        out.extend(leaves(x))
    return out


def vmap(f, *vs):
    if isinstance(vs[0], Arr):
        return f(*vs)
    return [vmap(f, *xs) for xs in zip(*vs)]


def flat_elems(v):
    out = []
    for l in leaves(v):
        out.extend(l.flat())
    return out


class Interp:
    def __init__(self, ctx, sym=True, tag=""):
        self.ctx = ctx
        self.sym = sym
        self.tag = tag
        self.errors = []  # conditions under which the real evaluator returns Err
        self.prf_memo = {}
        self.rand_log = []  # (kind, where, who, value) in creation order
        self.given = None  # concrete mode: {(gid, nid): value} for randomising nodes
        self.rand_symbols = None  # optional {(gid,nid): value} to tie tapes between graphs
        self.n_fresh = 0
        self.unsupported = None
        self.assumptions = []
        self.rand_at = {}  # (where, who) -> value for every randomising node evaluated

    # ------------------------------------------------------------ element helpers
    def const(self, v, w):
        v = int(v) % (1 << w)
        return z3.BitVecVal(v, w) if self.sym else v

    def norm_arr(self, a, w):
        if self.sym:
            return a
        m = 1 << w
        return wrap(a % m) if a.shape != () else oarr(a[()] % m)

    def fresh(self, name, w):
        self.n_fresh += 1
        return z3.BitVec("%s%s" % (self.tag, name), w)

    def fresh_value(self, t, name):
        if t.is_arr():
            w = st_bits(t.st)
            n = t.num_elements()
            els = [self.fresh("%s_%d" % (name, i), w) for i in range(n)]
            return Arr(t.st, oarr(els, t.shape))
        return [self.fresh_value(c, "%s.%d" % (name, i)) for i, c in enumerate(t.children())]

    def const_value(self, t, dec):
        """dec: nested lists of decimal strings / ints following the type"""
        if t.is_arr():
            w = st_bits(t.st)
            if t.kind == "scalar":
                x = dec[0] if isinstance(dec, list) else dec
                return Arr(t.st, oarr(self.const(int(x), w)))
            return Arr(t.st, oarr([self.const(int(x), w) for x in dec], t.shape))
        return [self.const_value(c, d) for c, d in zip(t.children(), dec)]

    def fill_value(self, t, v):
        if t.is_arr():
            w = st_bits(t.st)
            n = t.num_elements()
            return Arr(t.st, oarr([self.const(v, w) for _ in range(n)], t.shape))
        return [self.fill_value(c, v) for c in t.children()]

    def ite(self, c, x, y):
        """c: 1-bit element"""
        if self.sym:
            if z3.is_bv_value(c):
                return x if c.as_long() == 1 else y
            return z3.If(c == 1, x, y)
        return x if c == 1 else y

    def ite_b(self, c, x, y):
        """c: Bool / bool"""
        if self.sym:
            if z3.is_true(c):
                return x
            if z3.is_false(c):
                return y
            return z3.If(c, x, y)
        return x if c else y

    def eq_b(self, x, y):
        if self.sym:
            if x.eq(y):
                return z3.BoolVal(True)
            return x == y
        return x == y

    def ult_b(self, x, y):
        return z3.ULT(x, y) if self.sym else x < y

    def and_b(self, *cs):
        if self.sym:
            return z3.And(*cs) if len(cs) != 1 else cs[0]
        return all(cs)

    def or_b(self, *cs):
        if self.sym:
            return z3.Or(*cs) if len(cs) != 1 else cs[0]
        return any(cs)

    def not_b(self, c):
        return z3.Not(c) if self.sym else (not c)

    def ite_val(self, c, x, y):
        def f(a, b):
            fa, fb = a.flat(), b.flat()
            return Arr(a.st, oarr([self.ite_b(c, p, q) for p, q in zip(fa, fb)], a.shape))

        return vmap(f, x, y)

    def add_error(self, cond):
        self.errors.append(cond)

    # ------------------------------------------------------------ arithmetic on Arr
    def binop(self, op, x, y):
        w = x.w
        if op == "add":
            r = x.a + y.a
        elif op == "sub":
            r = x.a - y.a
        elif op == "mul":
            r = x.a * y.a
        else:
            raise ValueError(op)
        return Arr(x.st, self.norm_arr(wrap(r), w))

    def mixed_multiply(self, x, b):
        w = x.w
        zero = self.const(0, w)
        f = np.frompyfunc(lambda xe, be: self.ite(be, xe, zero), 2, 1)
        return Arr(x.st, wrap(f(x.a, b.a)))

    div_lemma = False
    perm_as_selector = False

    def div_const(self, e, d, w, signed):
        """quotient of e by the constant d (signed: round toward zero) introduced as a fresh
        variable defined by the division lemma e = q*d + r, |r| < d, sign(r) = sign(e):
        equivalent to bvsdiv/bvudiv (the solution is unique) but only multiplies by a constant"""
        self.n_fresh += 1
        q = z3.BitVec("%sdivq%d" % (self.tag, self.n_fresh), w)
        r = z3.BitVec("%sdivr%d" % (self.tag, self.n_fresh), w)
        ext = d.bit_length() + 1
        dd = z3.BitVecVal(d, w + ext)
        if signed:
            E, Q, R = z3.SignExt(ext, e), z3.SignExt(ext, q), z3.SignExt(ext, r)
            self.assumptions.append(E == Q * dd + R)
            self.assumptions.append(z3.If(e >= 0, z3.And(r >= 0, R < dd), z3.And(r <= 0, R > -dd)))
        else:
            E, Q, R = z3.ZeroExt(ext, e), z3.ZeroExt(ext, q), z3.ZeroExt(ext, r)
            self.assumptions.append(E == Q * dd + R)
            self.assumptions.append(z3.ULT(R, dd))
        return q

    def truncate(self, x, scale):
        w = x.w
        signed = st_signed(x.st)
        scale = int(scale)
        if self.sym and self.div_lemma and scale & (scale - 1) and scale < (1 << (w - 1)):
            f = np.frompyfunc(lambda e: self.div_const(e, scale, w, signed), 1, 1)
            return Arr(x.st, wrap(f(x.a)))

        def one(e):
            if not self.sym:
                if signed:
                    v = e - (1 << w) if e >= (1 << (w - 1)) else e
                    s = scale
                    if w == 128:
                        # (scale as i128)
                        s = scale - (1 << 128) if scale >= (1 << 127) else scale
                    q = abs(v) // abs(s)
                    if (v < 0) != (s < 0):
                        q = -q
                    return q % (1 << w)
                return e // scale
            if signed:
                if scale < (1 << (w - 1)):
                    return e / z3.BitVecVal(scale, w)  # bvsdiv: rounds toward zero
                if w == 128:
                    return e / z3.BitVecVal(scale, w)
                # |scale| exceeds every representable magnitude except possibly min
                big = z3.SignExt(w, e) / z3.BitVecVal(scale, 2 * w)
                return z3.Extract(w - 1, 0, big)
            if scale >= (1 << w):
                return z3.BitVecVal(0, w)
            return z3.UDiv(e, z3.BitVecVal(scale, w))

        f = np.frompyfunc(one, 1, 1)
        return Arr(x.st, wrap(f(x.a)))

    def a2b(self, x):
        w = x.w
        els = []
        for e in x.flat():
            for i in range(w):
                els.append(z3.Extract(i, i, e) if self.sym else (e >> i) & 1)
        if w == 1:
            return Arr("bit", x.a)
        return Arr("bit", oarr(els, tuple(x.shape) + (w,)))

    def b2a(self, x, st):
        w = st_bits(st)
        if w == 1:
            return Arr("bit", x.a)
        shape = tuple(x.shape[:-1])
        assert x.shape[-1] == w, (x.shape, st)
        fl = x.flat()
        els = []
        for k in range(len(fl) // w):
            bits = fl[k * w:(k + 1) * w]
            if self.sym:
                els.append(z3.Concat(*reversed(bits)))
            else:
                els.append(sum(b << i for i, b in enumerate(bits)))
        if shape == ():
            return Arr(st, oarr(els[0]))
        return Arr(st, oarr(els, shape))

    # ------------------------------------------------------------ indices
    def index_select(self, rows, idx, n):
        """rows: list of n values (structured); idx: element (uint). returns
        (selected value, in_range condition)"""
        w = idx.size() if self.sym else None
        res = rows[n - 1]
        for k in range(n - 2, -1, -1):
            c = self.eq_b(idx, self.const(k, w) if self.sym else k)
            res = self.ite_val(c, rows[k], res)
        if self.sym:
            if n < (1 << w):
                ok = z3.ULT(idx, z3.BitVecVal(n, w))
            else:
                ok = z3.BoolVal(True)
        else:
            ok = idx < n
        return res, ok

    def perm_valid(self, idx_elems, n):
        """condition: idx_elems (length n) is a permutation of 0..n"""
        conds = []
        for e in idx_elems:
            if self.sym:
                w = e.size()
                if n < (1 << w):
                    conds.append(z3.ULT(e, z3.BitVecVal(n, w)))
            else:
                conds.append(e < n)
        if self.sym:
            if len(idx_elems) > 1:
                conds.append(z3.Distinct(*idx_elems))
        else:
            conds.append(len(set(idx_elems)) == len(idx_elems))
        return self.and_b(*conds) if conds else (z3.BoolVal(True) if self.sym else True)

    def gather_rows(self, x, idx_elems, axis=0):
        """x: Arr; rows along `axis` selected by symbolic indices"""
        a = np.moveaxis(x.a, axis, 0)
        n = a.shape[0]
        rows = [Arr(x.st, wrap(a[k])) for k in range(n)]
        out = []
        for e in idx_elems:
            r, ok = self.index_select(rows, e, n)
            self.add_error(self.not_b(ok))
            out.append(r.a)
        st = np.empty((len(out),) + a.shape[1:], dtype=object)
        for i, r in enumerate(out):
            st[i] = r if r.shape != () else r[()]
        return Arr(x.st, np.moveaxis(st, 0, axis))

    def inverse_perm(self, idx_elems, st):
        """result[idx[i]] = i"""
        n = len(idx_elems)
        w = st_bits(st)
        res = []
        for v in range(n):
            # result[v] = the i with idx[i] == v
            r = self.const(n - 1, w)
            for i in range(n - 2, -1, -1):
                c = self.eq_b(idx_elems[i], self.const(v, w))
                r = self.ite_b(c, self.const(i, w), r)
            res.append(r)
        return res

    # ------------------------------------------------------------ sorting spec
    def stable_sort_perm(self, keys):
        """keys: list of n rows, each a list of elements compared lexicographically
        (unsigned, element 0 most significant). Returns for each output position p the
        one-hot selection conditions sel[p][i] (row i goes to position p)."""
        n = len(keys)

        def lt(a, b):  # lexicographic a < b
            res = (z3.BoolVal(False) if self.sym else False)
            for x, y in reversed(list(zip(a, b))):
                res = self.or_b(self.ult_b(x, y), self.and_b(self.eq_b(x, y), res))
            return res

        def eq(a, b):
            return self.and_b(*[self.eq_b(x, y) for x, y in zip(a, b)])

        ranks = []
        for i in range(n):
            terms = []
            for j in range(n):
                if j == i:
                    continue
                c = lt(keys[j], keys[i])
                if j < i:
                    c = self.or_b(c, eq(keys[j], keys[i]))
                terms.append(c)
            ranks.append(terms)
        # rank_i = number of true terms; sel[p][i] = (rank_i == p)
        sel = [[None] * n for _ in range(n)]
        for i in range(n):
            if self.sym:
                bw = max(1, (n).bit_length())
                s = z3.BitVecVal(0, bw)
                for c in ranks[i]:
                    s = s + z3.If(c, z3.BitVecVal(1, bw), z3.BitVecVal(0, bw))
                for p in range(n):
                    sel[p][i] = s == p
            else:
                r = sum(1 for c in ranks[i] if c)
                for p in range(n):
                    sel[p][i] = r == p
        return sel

    def apply_sel(self, x, sel):
        """x: Arr with first dim n; out[p] = sum_i sel[p][i] ? x[i]"""
        n = x.shape[0]
        rows = [Arr(x.st, wrap(x.a[k])) for k in range(n)]
        out = np.empty(x.shape, dtype=object)
        for p in range(n):
            r = rows[n - 1]
            for i in range(n - 2, -1, -1):
                r = self.ite_val(sel[p][i], rows[i], r)
            out[p] = r.a if r.a.shape != () else r.a[()]
        return Arr(x.st, out)

    # ------------------------------------------------------------ randomness
    def random_value(self, t, where, who):
        v = self._random_value(t, where, who)
        self.rand_at[(where, who)] = v
        return v

    def _random_value(self, t, where, who):
        if self.given is not None and where in self.given:
            v = self.given[where]
            return v[who] if isinstance(v, dict) else v
        if self.rand_symbols is not None and where in self.rand_symbols:
            v = self.rand_symbols[where]
            if isinstance(v, dict):
                v = v[who]
            self.rand_log.append(("tied", where, who, v))
            return v
        if not self.sym:
            raise Unsupported("concrete Random without given value at %r" % (where,))
        name = "R%s_%s" % ("_".join(str(x) for x in where), "" if who is None else "p%d" % who)
        v = self.fresh_value(t, name)
        self.rand_log.append(("random", where, who, v))
        return v

    def key_id(self, key):
        if self.sym:
            return tuple(e.get_id() for e in flat_elems(key))
        return tuple(flat_elems(key))

    def prf_value(self, key, iv, t, where, who, perm_n=None):
        v = self._prf_value(key, iv, t, where, who, perm_n)
        self.rand_at[(where, who)] = v
        return v

    def _prf_value(self, key, iv, t, where, who, perm_n=None):
        if self.given is not None and where in self.given:
            v = self.given[where]
            return v[who] if isinstance(v, dict) else v
        kid = (self.key_id(key), int(iv), repr(t), perm_n)
        if kid in self.prf_memo:
            return self.prf_memo[kid]
        if not self.sym:
            raise Unsupported("concrete PRF without given value at %r" % (where,))
        name = "F%s_%s" % ("_".join(str(x) for x in where), "" if who is None else "p%d" % who)
        if perm_n is not None and self.perm_as_selector and perm_n <= 4:
            # a valid permutation by construction: one of the n! concrete permutations, chosen by a selector
            import itertools as _it
            perms = list(_it.permutations(range(perm_n)))
            bw = max(1, (len(perms) - 1).bit_length())
            sel = self.fresh(name + "_sel", bw)
            if len(perms) < (1 << bw):
                self.assumptions.append(z3.ULT(sel, z3.BitVecVal(len(perms), bw)))
            els = []
            for pos in range(perm_n):
                e = z3.BitVecVal(perms[-1][pos], 64)
                for k in range(len(perms) - 2, -1, -1):
                    e = z3.If(sel == k, z3.BitVecVal(perms[k][pos], 64), e)
                els.append(e)
            v = Arr("u64", oarr(els, (perm_n,)))
            self.prf_memo[kid] = v
            self.rand_log.append(("prf", where, who, v, int(iv)))
            return v
        v = self.fresh_value(t, name)
        self.prf_memo[kid] = v
        self.rand_log.append(("prf", where, who, v, int(iv)))
        if perm_n is not None:
            # the real PRF permutation is always a valid permutation: constrain, not flag
            self.assumptions.append(self.perm_valid(v.flat(), perm_n))
        return v



    # ------------------------------------------------------------ node evaluation
    def eval_op(self, node, dv, dt, nt, where, who, call_graph):
        op = node["op"]
        if isinstance(op, str):
            name, arg = op, None
        else:
            (name, arg), = op.items()
        if name == "Zeros":
            return self.fill_value(T.from_json(arg), 0)
        if name == "Ones":
            return self.fill_value(T.from_json(arg), 1)
        if name in ("Constant", "ConstantDec"):
            return self.const_value(T.from_json(arg[0]), node["const"] if "const" in node else arg[1])
        if name == "Add":
            return self.binop("add", dv[0], dv[1])
        if name == "Subtract":
            return self.binop("sub", dv[0], dv[1])
        if name == "Multiply":
            return self.binop("mul", dv[0], dv[1])
        if name == "MixedMultiply":
            return self.mixed_multiply(dv[0], dv[1])
        if name == "Dot":
            x, y = dv
            if x.shape == () or y.shape == ():
                return self.binop("mul", x, y)
            return Arr(x.st, self.norm_arr(wrap(np.dot(x.a, y.a)), x.w))
        if name == "Matmul":
            x, y = dv
            return Arr(x.st, self.norm_arr(wrap(np.matmul(x.a, y.a)), x.w))
        if name == "Gemm":
            x, y = dv
            xa = np.swapaxes(x.a, -1, -2) if arg[0] else x.a
            ya = np.swapaxes(y.a, -1, -2) if arg[1] else y.a
            return Arr(x.st, self.norm_arr(wrap(np.matmul(xa, ya)), x.w))
        if name == "Truncate":
            return self.truncate(dv[0], arg)
        if name == "Sum":
            x = dv[0]
            axes = tuple(int(a) for a in arg)
            if len(axes) == 0:
                return x
            return Arr(x.st, self.norm_arr(wrap(x.a.sum(axis=axes)), x.w))
        if name == "CumSum":
            x = dv[0]
            return Arr(x.st, self.norm_arr(wrap(np.cumsum(x.a, axis=int(arg))), x.w))
        if name == "PermuteAxes":
            x = dv[0]
            return Arr(x.st, np.transpose(x.a, [int(a) for a in arg]))
        if name == "Get":
            x = dv[0]
            return Arr(x.st, wrap(x.a[tuple(int(a) for a in arg)]))
        if name == "GetSlice":
            x = dv[0]
            idx = []
            for se in arg:
                if se == "Ellipsis":
                    idx.append(Ellipsis)
                elif "SingleIndex" in se:
                    idx.append(int(se["SingleIndex"]))
                else:
                    s = se["SubArray"]
                    idx.append(slice(*[None if v is None else int(v) for v in s]))
            return Arr(x.st, wrap(x.a[tuple(idx)]))
        if name == "Reshape":
            nt2 = T.from_json(arg)
            ls = leaves(dv[0])
            pos = [0]

            def build(t):
                if t.is_arr():
                    l = ls[pos[0]]
                    pos[0] += 1
                    return Arr(l.st, l.a.reshape(t.shape))
                return [build(c) for c in t.children()]

            return build(nt2)
        if name in ("NOP", "Print"):
            return dv[0]
        if name == "Assert":
            b = dv[0].a[()]
            self.add_error(self.eq_b(b, self.const(0, 1)))
            return dv[1]
        if name == "Random":
            return self.random_value(T.from_json(arg), where, who)
        if name == "RandomPermutation":
            n = int(arg)
            v = self.random_value(T.array([n], "u64"), where, who)
            if self.sym:
                self.assumptions.append(self.perm_valid(v.flat(), n))
            return v
        if name == "PRF":
            return self.prf_value(dv[0], arg[0], T.from_json(arg[1]), where, who)
        if name == "PermutationFromPRF":
            n = int(arg[1])
            return self.prf_value(dv[0], arg[0], T.array([n], "u64"), where, who, perm_n=n)
        if name == "Stack":
            outer = tuple(int(a) for a in arg)
            inner = tuple(nt.shape[len(outer):])
            out = np.empty((len(dv),) + inner, dtype=object)
            for i, v in enumerate(dv):
                out[i] = np.broadcast_to(v.a, inner) if inner != () else v.a[()]
            return Arr(nt.st, out.reshape(outer + inner))
        if name == "Concatenate":
            return Arr(dv[0].st, np.concatenate([v.a for v in dv], axis=int(arg)))
        if name == "A2B":
            return self.a2b(dv[0])
        if name == "B2A":
            return self.b2a(dv[0], arg)
        if name in ("CreateTuple", "CreateNamedTuple", "CreateVector"):
            return list(dv)
        if name == "TupleGet":
            return dv[0][int(arg)]
        if name == "NamedTupleGet":
            return dv[0][dt[0].names.index(arg)]
        if name == "VectorGet":
            vec, idx = dv
            n = len(vec)
            ie = idx.a[()]
            if (self.sym and z3.is_bv_value(ie)) or not self.sym:
                k = ie.as_long() if self.sym else ie
                if k >= n:
                    self.add_error(z3.BoolVal(True) if self.sym else True)
                    return vec[0] if n else None
                return vec[k]
            if n == 0:
                raise Unsupported("VectorGet on empty vector")
            r, ok = self.index_select(vec, ie, n)
            self.add_error(self.not_b(ok))
            return r
        if name == "Zip":
            m = min(len(v) for v in dv)
            return [[v[i] for v in dv] for i in range(m)]
        if name == "Repeat":
            return [dv[0] for _ in range(int(arg))]
        if name == "ArrayToVector":
            x = dv[0]
            return [Arr(x.st, wrap(x.a[i])) for i in range(x.shape[0])]
        if name == "VectorToArray":
            vec = dv[0]
            out = np.empty(nt.shape, dtype=object)
            for i, v in enumerate(vec):
                out[i] = v.a if v.a.shape != () else v.a[()]
            return Arr(nt.st, out)
        if name == "Gather":
            x, idx = dv
            axis = int(arg)
            g = self.gather_rows(x, idx.flat(), axis)
            # result shape: x.shape[:axis] + idx.shape + x.shape[axis+1:]
            shp = tuple(x.shape[:axis]) + tuple(idx.shape) + tuple(x.shape[axis + 1:])
            return Arr(x.st, g.a.reshape(shp))
        if name == "InversePermutation":
            x = dv[0]
            els = x.flat()
            self.add_error(self.not_b(self.perm_valid(els, len(els))))
            return Arr(x.st, oarr(self.inverse_perm(els, x.st), x.shape))
        if name == "ApplyPermutation":
            x, p = dv
            els = p.flat()
            n = x.shape[0]
            self.add_error(self.not_b(self.perm_valid(els, n)))
            if arg:
                els = self.inverse_perm(els, p.st)
            return self.gather_rows(x, els, 0)
        if name == "Sort":
            tup = dv[0]
            names = dt[0].names
            key = tup[names.index(arg)]
            n = key.shape[0]
            krows = [list(wrap(key.a[i]).reshape(-1)) for i in range(n)]
            sel = self.stable_sort_perm(krows)
            return [self.apply_sel(col, sel) for col in tup]
        if name == "SegmentCumSum":
            x, b, first = dv
            n = x.shape[0]
            rows = [Arr(x.st, wrap(np.asarray(first.a, dtype=object)))]
            out = np.empty((n + 1,) + tuple(x.shape[1:]), dtype=object)
            out[0] = first.a if first.a.shape != () else first.a[()]
            prev = Arr(x.st, first.a)
            bf = b.flat()
            for i in range(n):
                xi = Arr(x.st, wrap(x.a[i]))
                s = self.binop("add", xi, prev)
                c = self.eq_b(bf[i], self.const(0, b.w))
                cur = self.ite_val(c, xi, s)
                out[i + 1] = cur.a if cur.a.shape != () else cur.a[()]
                prev = cur
            return Arr(x.st, out)
        if name == "Call":
            return call_graph(node["gdeps"][0], list(dv), where)
        if name == "Iterate":
            state, inp = dv
            outs = []
            for i, item in enumerate(inp):
                r = call_graph(node["gdeps"][0], [state, item], where + (i,))
                state = r[0]
                outs.append(r[1])
            return [state, outs]
        raise Unsupported(name)

    # ------------------------------------------------------------ graph evaluation
    def node_type(self, node):
        return T.from_json(node["type"])

    def run_graph(self, gid, inputs, path=(), who=None, record=None):
        """global semantics. returns list of node values."""
        g = self.ctx["graphs"][gid]
        vals = []
        k = 0
        types = [self.node_type(n) for n in g["nodes"]]

        def call_graph(cg, args, where):
            vs = self.run_graph(cg, args, path=where, who=who)
            return vs[self.ctx["graphs"][cg]["output"]]

        for nid, node in enumerate(g["nodes"]):
            op = node["op"]
            if isinstance(op, dict) and "Input" in op:
                vals.append(inputs[k])
                k += 1
                continue
            dv = [vals[d] for d in node["deps"]]
            dt = [types[d] for d in node["deps"]]
            where = path + (gid, nid) if path else (gid, nid)
            vals.append(self.eval_op(node, dv, dt, types[nid], where, who, call_graph))
        return vals

    def run_parties(self, gid, inputs3, sends_enabled=True):
        """three-view semantics on an inlined graph. inputs3[k][p] = party p's view of
        input k. returns vals[p][nid]."""
        g = self.ctx["graphs"][gid]
        types = [self.node_type(n) for n in g["nodes"]]
        vals = [[], [], []]
        k = 0

        def no_call(*a):
            raise Unsupported("Call/Iterate in three-view semantics")

        for nid, node in enumerate(g["nodes"]):
            op = node["op"]
            if isinstance(op, dict) and "Input" in op:
                for p in range(3):
                    vals[p].append(inputs3[k][p])
                k += 1
                continue
            send = None
            for a in node.get("ann", []):
                if isinstance(a, dict) and "Send" in a:
                    send = (int(a["Send"][0]), int(a["Send"][1]))
            dt = [types[d] for d in node["deps"]]
            for p in range(3):
                if send is not None and sends_enabled and send[1] == p:
                    vals[p].append(vals[send[0]][node["deps"][0]])
                    continue
                dv = [vals[p][d] for d in node["deps"]]
                vals[p].append(self.eval_op(node, dv, dt, types[nid], (gid, nid), p, no_call))
        return vals


    def run_local(self, gid, inputs_p, P):
        """party P's own computation with every value delivered to P replaced by a fresh symbol
        (what P can compute from its view alone). returns (vals, mu) with mu[nid] = the fresh value."""
        g = self.ctx["graphs"][gid]
        types = [self.node_type(n) for n in g["nodes"]]
        vals, mu = [], {}
        k = 0

        def no_call(*a):
            raise Unsupported("Call/Iterate in three-view semantics")

        for nid, node in enumerate(g["nodes"]):
            op = node["op"]
            if isinstance(op, dict) and "Input" in op:
                vals.append(inputs_p[k])
                k += 1
                continue
            send = None
            for a in node.get("ann", []):
                if isinstance(a, dict) and "Send" in a:
                    send = (int(a["Send"][0]), int(a["Send"][1]))
            if send is not None and send[1] == P:
                v = self.fresh_value(types[nid], "mu%d_p%d" % (nid, P))
                mu[nid] = v
                vals.append(v)
                continue
            dt = [types[d] for d in node["deps"]]
            dv = [vals[d] for d in node["deps"]]
            vals.append(self.eval_op(node, dv, dt, types[nid], (gid, nid), P, no_call))
        return vals, mu


def input_types(ctx, gid=None):
    g = ctx["graphs"][ctx["main"] if gid is None else gid]
    out = []
    for n in g["nodes"]:
        op = n["op"]
        if isinstance(op, dict) and "Input" in op:
            out.append(T.from_json(op["Input"]))
    return out


def values_equal_conds(it, x, y):
    """list of element-wise (lhs, rhs) pairs for two structured values"""
    ex, ey = flat_elems(x), flat_elems(y)
    assert len(ex) == len(ey), (len(ex), len(ey))
    return list(zip(ex, ey))


def shape_of(v):
    """type skeleton of a value, for comparison with recorded types"""
    if isinstance(v, Arr):
        return (v.st, tuple(v.shape))
    return [shape_of(x) for x in v]


def shape_of_type(t):
    if t.is_arr():
        return (t.st, tuple(t.shape))
    return [shape_of_type(c) for c in t.children()]
