"""C05 - secure truncation stays within its documented error.
Real code encoded: mpc::mpc_truncate::{TruncateMPC2K, TruncateMPC}::instantiate, the protocol choice and key
plumbing in mpc::mpc_compiler::compile_to_mpc_graph (Operation::Truncate), compile_context."""
import random

import z3

from . import drv, vals, solve, validate, mpc_common as mc, check_c01
from .cctypes import T, st_bits, st_signed
from .common import Check, pool_map, safe_analyze
from .interp import Interp, Unsupported, flat_elems
from .prog import single_graph
from .validate import op_name


def A(shape, st):
    return T.scalar(st) if shape == () else T.array(shape, st)


def gen_cases(tier, seed):
    cases = []
    k = 0
    owners_all = [0, 1, 2, "shared", "public"]
    outs_all = [[0], [1], [2], [0, 1], [1, 2], [0, 1, 2], []]
    modes = ["simple", "depth_default", "depth_extreme"]
    # --- powers of two
    for st in ["i8", "u8", "i16", "u16", "i32", "u32", "i64", "u64", "i128", "u128"]:
        w = st_bits(st)
        ks = sorted(set([1, 2, w // 2, w - 3, w - 2])) if tier == "quick" else list(range(1, w - 1))
        if tier == "quick" and w >= 32:
            ks = sorted(set([1, w // 2, w - 2, 1 + (seed * 5 + w) % (w - 2)]))
        if w == 128:
            ks = sorted(set([1, 63, 64, 65, 100, 126] + ([1 + (seed * 11) % 126] if tier == "quick" else list(range(60, 70)))))
        for kk in ks:
            for shape in ([(), (2,)] if w <= 16 else [()]):
                # rotate owners / outputs so that every owner value and output set appears
                for j in range(2 if tier == "quick" else 5):
                    k += 1
                    owner = owners_all[(k + seed + j) % 5]
                    outs = outs_all[(k + seed) % len(outs_all)]
                    mode = modes[(k + seed) % 3]
                    t = A(shape, st)
                    prog = single_graph(lambda g: g.truncate(g.input(t), 1 << kk))
                    cases.append(dict(id="pow2:%s:k%d:%s:%s:%s:%s" % (st, kk, list(shape), owner, "".join(map(str, outs)) or "-", mode),
                                      template="pow2:%s:k%d" % (st, kk), st=st, kind="pow2", k=kk, prog=prog, in_types=[t.to_json()],
                                      owners=[owner], outs=outs, mode=mode, vseed=seed * 13 + k, n_evals=1))
    # --- general divisors (signed only)
    for st in ["i8", "i16", "i32", "i64"]:
        w = st_bits(st)
        ds = [3, 5, 7, 10, 100 if w > 8 else 9]
        ds += [(1 << (w // 2)) + 1, (1 << (w // 2)) - 1]
        for d in ds:
            if d >= (1 << (w - 1)):
                continue
            for j, owner in enumerate(["shared", 0, 2, "public"]):
                if tier == "quick" and j in (1, 2) and (k + seed) % 2:
                    k += 1
                    continue
                k += 1
                outs = outs_all[(k + seed) % len(outs_all)]
                mode = modes[(k + seed) % 3]
                t = A((), st)
                prog = single_graph(lambda g: g.truncate(g.input(t), d))
                cases.append(dict(id="div:%s:d%d:%s:%s:%s" % (st, d, owner, "".join(map(str, outs)) or "-", mode),
                                  template="div:%s:d%d" % (st, d), st=st, kind="div", d=d, prog=prog, in_types=[t.to_json()],
                                  owners=[owner], outs=outs, mode=mode, vseed=seed * 13 + k, n_evals=1))
    return cases


def in_range(x, st):
    w = st_bits(st)
    if st_signed(st):
        lo = z3.BitVecVal((1 << w) - (1 << (w - 2)), w)  # -2^(w-2)
        hi = z3.BitVecVal(1 << (w - 2), w)
        return z3.And(x >= lo, x < hi)  # signed comparisons
    return z3.ULT(x, z3.BitVecVal(1 << (w - 1), w))


def floor_shift(x, k, st):
    return (x >> k) if st_signed(st) else z3.LShR(x, k)


def bad_pow2(out_el, x_el, k, st):
    w = st_bits(st)
    diff = out_el - floor_shift(x_el, k, st)
    return z3.And(in_range(x_el, st), z3.Not(z3.Or(diff == 0, diff == 1)))


def bad_div(out_el, x_el, d, st, it=None):
    w = st_bits(st)
    if it is not None:
        q = it.div_const(x_el, d, w, True)  # plaintext Truncate rounds toward zero (division lemma)
    else:
        q = x_el / z3.BitVecVal(d, w)
    diff = out_el - q
    return z3.Not(z3.Or(diff == 0, diff == 1, diff == z3.BitVecVal((1 << w) - 1, w)))


@safe_analyze(lambda a: dict(id=a[0]["id"], status=None, queries=[], note="", cex=None, n_nodes=0, validated=0, mism=[]))
def analyze(args):
    case, res, timeout_s = args
    out = dict(id=case["id"], status=None, queries=[], note="", cex=None, n_nodes=0, validated=0, mism=[])
    try:
        ctxs = res.get("contexts")
        if ctxs is None:
            out["status"] = "driver_fatal"
            return out
        for i, c in enumerate(ctxs):
            if not c.get("ok"):
                out["status"] = "stage_error"
                out["note"] = c.get("error", "")
                out["panic"] = bool(c.get("panic"))
                return out
        idx = case["_idx"]
        S, F = ctxs[0]["dump"], ctxs[idx["F"]]["dump"]
        gF = F["graphs"][F["main"]]
        out["n_nodes"] = len(gF["nodes"])
        in_types = [T.from_json(j) for j in case["in_types"]]
        st = case["st"]
        w = st_bits(st)
        evs = res.get("evals", [])
        for kk in range(len(evs) // 2):
            vF = validate.validate(F, evs[2 * kk], case["_eval_comp"][kk])
            if vF["ok"] is False:
                out["mism"].append(dict(mismatches=vF["mismatches"][:3]))
            elif vF["ok"]:
                out["validated"] += 1
        if out["mism"]:
            out["status"] = "validation_mismatch"
            return out
        owner = case["owners"][0]
        # ---------- global semantics
        it = Interp(F, sym=True)
        it.div_lemma = True
        xs = [it.fresh_value(t, "x%d" % i) for i, t in enumerate(in_types)]
        cin, shares = mc.compiled_inputs_global(it, in_types, case["owners"], xs)
        fv = it.run_graph(F["main"], cin)
        fo = fv[gF["output"]]
        if not case["outs"]:
            fo = mc.sum3(it, fo)
        xe, oe = flat_elems(xs[0]), flat_elems(fo)
        pre = it.assumptions  # (a list that division lemmas extend)
        if owner == "public":
            # exact
            it.ctx = S
            sv = it.run_graph(S["main"], xs)
            so = flat_elems(sv[S["graphs"][S["main"]]["output"]])
            bad = z3.Or(*[a != b for a, b in zip(oe, so)])
        elif case["kind"] == "pow2":
            bad = z3.Or(*[bad_pow2(o, x, case["k"], st) for o, x in zip(oe, xe)])
        else:
            # no-wrap precondition on the additive split the protocol truncates share-wise
            tr = [i for i, n in enumerate(gF["nodes"]) if op_name(n) == "Truncate"]
            if len(tr) != 2:
                out["status"] = "unexpected_structure"
                out["note"] = "expected two Truncate nodes in the compiled graph, found %d" % len(tr)
                return out
            s0 = flat_elems(fv[gF["nodes"][tr[0]]["deps"][0]])
            s12 = flat_elems(fv[gF["nodes"][tr[1]]["deps"][0]])
            for a, b, x in zip(s0, s12, xe):
                pre.append(z3.SignExt(2, a) + z3.SignExt(2, b) == z3.SignExt(2, x))
            bad = z3.Or(*[bad_div(o, x, case["d"], st, it) for o, x in zip(oe, xe)])
        if it.errors:
            bad = z3.Or(bad, *it.errors)
        want = [("in", i, v) for i, v in enumerate(cin)]
        for (where, who), v in it.rand_at.items():
            want.append(("rand", where, v))
        terms = []
        for _, _, v in want:
            terms.extend(flat_elems(v))
        r = solve.check_sat_forked(bad, pre, model_terms=terms, timeout_s=timeout_s, kind="divconst" if case["kind"] == "div" else "mixed")
        out["queries"].append(dict(name="global", verdict=r.verdict, tactic=r.tactic, secs=round(r.secs, 3), note=r.note))
        status = r.verdict
        if r.verdict == "sat" and r.model is not None:
            pos = [0]
            got = {}
            for kind, key, v in want:
                got[(kind, key)] = mc.nest_like(v, r.model, pos)
            ovr = {}
            for kind, key, v in want:
                if kind == "rand":
                    ovr["%d:%d" % (key[-2], key[-1])] = vals.enc(mc.value_type(v), got[(kind, key)])
            out["cex"] = dict(inputs=[got[("in", i)] for i in range(len(cin))], overrides=ovr)
        elif r.verdict == "sat":
            status = "unknown"
        # ---------- three-view semantics: every output party ends within the bound
        if status == "unsat" and case["outs"] and owner != "public":
            it3 = Interp(F, sym=True)
            it3.div_lemma = True
            xs3 = [it3.fresh_value(t, "x%d" % i) for i, t in enumerate(in_types)]
            in3, sh3, junk = mc.compiled_inputs_parties(it3, in_types, case["owners"], xs3)
            pv = it3.run_parties(F["main"], in3)
            x3 = flat_elems(xs3[0])
            bads = []
            pre3 = it3.assumptions
            if case["kind"] == "div":
                tr = [i for i, n in enumerate(gF["nodes"]) if op_name(n) == "Truncate"]
                # the split is the one held by the parties that truncate: share 0 by party 0 / share 1+2 by party 1
                s0 = flat_elems(pv[0][gF["nodes"][tr[0]]["deps"][0]])
                s12 = flat_elems(pv[1][gF["nodes"][tr[1]]["deps"][0]])
                for a, b, x in zip(s0, s12, x3):
                    pre3.append(z3.SignExt(2, a) + z3.SignExt(2, b) == z3.SignExt(2, x))
            for p in case["outs"]:
                oe3 = flat_elems(pv[p][gF["output"]])
                if case["kind"] == "pow2":
                    bads += [bad_pow2(o, x, case["k"], st) for o, x in zip(oe3, x3)]
                else:
                    bads += [bad_div(o, x, case["d"], st, it3) for o, x in zip(oe3, x3)]
            want3 = []
            for k3 in range(len(in_types)):
                for p3 in range(3):
                    want3.append(("in", (k3, p3), in3[k3][p3]))
            for (where, who), v in it3.rand_at.items():
                if who is not None:
                    want3.append(("rand", (where, who), v))
            for i3, x in enumerate(xs3):
                want3.append(("plain", i3, x))
            terms3 = []
            for _, _, v in want3:
                terms3.extend(flat_elems(v))
            r3 = solve.check_sat_forked(z3.Or(*bads), pre3, model_terms=terms3, timeout_s=timeout_s, kind="divconst" if case["kind"] == "div" else "mixed")
            out["queries"].append(dict(name="three_view", verdict=r3.verdict, tactic=r3.tactic, secs=round(r3.secs, 3), note=r3.note))
            if r3.verdict == "sat":
                status = "sat3"
                if r3.model is not None:
                    pos3 = [0]
                    got3 = {}
                    for kind3, key3, v in want3:
                        got3[(kind3, key3)] = mc.nest_like(v, r3.model, pos3)
                    inputs3 = []
                    for k3, t in enumerate(in_types):
                        ct = T.tuple([t, t, t]) if case["owners"][k3] == "shared" else t
                        inputs3.append([vals.enc(ct, got3[("in", (k3, p3))]) for p3 in range(3)])
                    ovr3 = [{}, {}, {}]
                    for kind3, key3, v in want3:
                        if kind3 == "rand":
                            where, who = key3
                            ovr3[who]["%d:%d" % (where[-2], where[-1])] = vals.enc(mc.value_type(v), got3[(kind3, key3)])
                    out["cex3"] = dict(inputs3=inputs3, overrides=ovr3, plain=[got3[("plain", i3)] for i3 in range(len(xs3))])
            elif r3.verdict != "unsat":
                status = "unknown"
        out["status"] = status
    except Unsupported as e:
        out["status"] = "unsupported"
        out["note"] = str(e)
    return out


def judge(case, cex, rr):
    """real evaluator: compiled output vs floor / plaintext quotient"""
    st = case["st"]
    w = st_bits(st)
    m = 1 << w
    evF = rr["evals"][0]
    if not evF.get("ok"):
        return True, "compiled graph failed: %s" % evF.get("error")
    t = T.from_json(case["in_types"][0])
    owner = case["owners"][0]
    xs = mc.plain_from_compiled([t], case["owners"], cex["inputs"])[0]
    if case["outs"]:
        out = vals.dec(t, evF["output"])
    else:
        o3 = vals.dec(T.tuple([t, t, t]), evF["output"])
        out = [(a + b + c) % m for a, b, c in zip(*o3)]

    def sgn(v):
        return v - m if st_signed(st) and v >= m // 2 else v
    for x, o in zip(xs, out):
        xv = sgn(x)
        if case["kind"] == "pow2":
            if st_signed(st) and not (-(m // 4) <= xv < m // 4):
                continue
            if not st_signed(st) and not (xv < m // 2):
                continue
            fl = (xv >> case["k"]) % m
            if owner == "public":
                ok = (o == ((abs(xv) >> case["k"]) * (1 if xv >= 0 else -1)) % m)
            else:
                ok = ((o - fl) % m) in (0, 1)
            if not ok:
                return True, "x=%d: protocol returned %d, floor(x/2^%d)=%d" % (xv, sgn(o), case["k"], sgn(fl))
        else:
            q = (abs(xv) // case["d"]) * (1 if xv >= 0 else -1)
            if ((o - q) % m) not in (0, 1, m - 1):
                return True, "x=%d: protocol returned %d, plaintext quotient by %d is %d" % (xv, sgn(o), case["d"], q)
    return False, "within the bound"


def main():
    chk = Check("C05", "other")
    chk.module = "symg.check_c05"
    cases = gen_cases(chk.tier, chk.seed)
    timeout_s = 90 if chk.tier == "quick" else 600
    drv.build()
    results = drv.run_jobs([check_c01.build_job(c) for c in cases])
    outs = pool_map(analyze, [(c, r, timeout_s) for c, r in zip(cases, results)])
    replay = []
    replay3 = []
    slow = []
    for c, o in zip(cases, outs):
        chk.count("programs")
        chk.count("status_" + str(o["status"]))
        chk.count("validation_vectors", o["validated"])
        for q in o["queries"]:
            chk.count("queries")
            chk.count("tactic_%s" % q["tactic"])
            chk.solver_secs += q["secs"]
            if q["secs"] > 30:
                slow.append((q["secs"], c["id"], q["name"], q["verdict"]))
        if o["status"] == "unsat":
            chk.sample(dict(case=c["id"], compiled_nodes=o["n_nodes"], queries=[(q["name"], q["verdict"], q["tactic"], q["secs"]) for q in o["queries"]]), cap=8)
        elif o["status"] == "sat":
            replay.append((c, o))
        elif o["status"] == "sat3":
            replay3.append((c, o))
        elif o["status"] == "stage_error" and not o.get("panic") and c["kind"] == "div" and "signed" in o["note"]:
            chk.count("rejected_by_compiler")
        else:
            chk.inconc("%s: %s %s %s %s" % (c["id"], o["status"], o["note"], o["queries"][-1:], str(o["mism"][:1])[:300]))
    if replay:
        rj = [check_c01.replay_job(c, o["cex"]) for c, o in replay]
        for (c, o), (j, plain), rr in zip(replay, rj, drv.run_jobs([j for j, _ in rj])):
            chk.count("models_replayed")
            confirmed, why = judge(c, o["cex"], rr)
            if confirmed:
                chk.violation("%s|%s|%s|%s" % (c["template"], c["owners"], c["outs"], c["mode"]), "%s: %s" % (c["id"], why),
                              dict(kind="c05", module="symg.check_c05", case={k: v for k, v in c.items() if not k.startswith("_")}, cex=o["cex"], job=j))
            else:
                chk.inconc("%s: solver model did not reproduce on the real evaluator (%s)" % (c["id"], why))
    for c, o in replay3:
        chk.count("three_view_models_replayed")
        if not o.get("cex3"):
            chk.inconc("%s: three-view model without values" % c["id"])
            continue
        from . import check_c02
        j = check_c02.replay_job(c, o["cex3"])
        rr = drv.run_job(j)
        parties = (rr.get("party_evals") or [{}])[0].get("parties")
        t = T.from_json(c["in_types"][0])
        why = None
        if not parties:
            chk.inconc("%s: three-party executor failed" % c["id"])
            continue
        for p in c["outs"]:
            if parties[p]["error"]:
                why = "party %d cannot evaluate: %s" % (p, parties[p]["error"])
                break
            fake = dict(evals=[dict(ok=True, output=parties[p]["output"])])
            cexp = dict(inputs=[o["cex3"]["plain"][0]] if c["owners"][0] != "shared" else None)
            if c["owners"][0] == "shared":
                # plain_from_compiled expects the three shares: use (x, 0, 0)
                zero = [0] * len(o["cex3"]["plain"][0])
                cexp = dict(inputs=[[o["cex3"]["plain"][0], zero, zero]])
            bad_, w_ = judge(dict(c, outs=[p]), cexp, fake)
            if bad_:
                why = "party %d: %s" % (p, w_)
                break
        if why:
            chk.violation("threeview|%s|%s|%s" % (c["template"], c["owners"], c["outs"]), "%s (three-party execution): %s" % (c["id"], why),
                          dict(kind="c05_threeview", module="symg.check_c05", case={k: v for k, v in c.items() if not k.startswith("_")}, cex=o["cex3"], job=j))
        else:
            chk.inconc("%s: three-view model did not reproduce in the three-party executor" % c["id"])
    for x in sorted(slow, reverse=True)[:10]:
        print("slow:", x)
    chk.functions = ["mpc::mpc_truncate::TruncateMPC2K::instantiate", "mpc::mpc_truncate::TruncateMPC::instantiate", "mpc::mpc_compiler::compile_to_mpc_graph (Truncate arm, key plumbing)", "mpc::mpc_compiler::compile_context"]
    chk.bounds = dict(pow2="INT8..INT128 and UINT8..UINT128 (128-bit: k in {1,63,64,65,100,126}); k in {1,2,w/2,w-3,w-2} (quick; 4 values for w>=32) / all 1..w-2 (thorough); scalar and [2]",
                      general="signed 8/16/32/64 bit; d in {3,5,7,10,100,2^(w/2)+-1}", owners="0,1,2,shared,public rotated", outputs="7 output sets rotated incl. shared", modes="3 inline modes rotated")
    chk.outside = ["general divisors on 128-bit types", "the probability of the wrap-around event (only its exclusion as a precondition is modelled)"]
    chk.assumptions = ["2^k: inputs in the documented range [-2^(w-2), 2^(w-2)) signed / [0, 2^(w-1)) unsigned; oracle = floor (arithmetic shift), not the plaintext evaluator",
                       "general divisor: precondition 'no wrap-around': sext(s0)+sext(s1+s2) = sext(x) for the shares the protocol truncates; oracle = plaintext quotient (round toward zero) +-1",
                       "PRF values (r, r-shares, y0, y2, zero shares) are arbitrary subject to (key, iv) congruence"]
    chk.finish(dict(explanation="compiled Truncate graphs (real TruncateMPC2K / TruncateMPC instantiation through compile_context) executed symbolically in the global and the three-view semantics; "
                                "the solver is asked for an in-range input, sharing and tape with result - floor(x/2^k) not in {0,1} (resp. |result - x/d| > 1)",
                    evaluations=len(cases), distinct_nontrivial=len({c["template"] for c in cases}), programs=len(cases),
                    rule="case = (scalar type, k or d, shape, owner, output set, inline mode); distinct = distinct (type, k/d)"))


if __name__ == "__main__":
    main()
