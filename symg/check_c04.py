"""C04 - every pseudo-random mask is fresh: no PRF input reused, no randomness merged.
Real code encoded: mpc::mpc_compiler::{uniquify_prf_id, prepare_for_mpc_evaluation, compile_context},
graphs::Operation::{update_prf_id, is_randomizing, is_const_optimizable}, inline::inline_ops::inline_operations
(bodies inlined repeatedly), optimizer::* (must leave randomising nodes alone)."""
import random

import z3

from . import drv, solve, progs_mpc, gen, mpc_common as mc, check_c06, check_c01
from .cctypes import T
from .common import Check, pool_map, safe_analyze
from .interp import Interp, Unsupported, flat_elems
from .validate import op_name, RANDOMISING


def gen_compiler_cases(tier, seed):
    cases = []
    k = 0
    ring = progs_mpc.gen_cases("quick", seed)
    # a spread of ring programs (Call/Iterate wrappers in every mode are the interesting ones)
    for c in ring:
        if c["template"].startswith("W:") or (k + seed) % (5 if tier == "quick" else 1) == 0:
            cases.append(dict(c, staged=True, n_evals=0))
        k += 1
    for name, spec in progs_mpc.bool_templates().items():
        for st in (["u8"] if tier == "quick" else ["u8", "i32", "u64"]):
            prog, in_types = progs_mpc.instantiate_bool(name, spec, st)
            for owners, outs, mode in progs_mpc.pick_configs(len(in_types), k, seed, 3 if tier == "quick" else 9):
                if name in ("apply_perm",) and owners[1] == "public" and owners[0] == "public":
                    continue
                k += 1
                cases.append(dict(id="B:%s:%s:%s:%s:%s" % (name, st, "".join(str(o)[0] for o in owners), "".join(map(str, outs)) or "-", mode),
                                  template="B:" + name, st=st, prog=prog, in_types=[t.to_json() for t in in_types], owners=owners, outs=outs, mode=mode,
                                  kind="bits", vseed=seed * 1000 + k, staged=True, n_evals=0, may_reject=True))
    # iterate over a body that multiplies (one PRF-using protocol per inlined copy), all modes, several lengths
    for n in ([2, 5] if tier == "quick" else [1, 2, 3, 5, 9, 17]):
        for mode in progs_mpc.MODES:
            prog, in_types = progs_mpc.call_wrapped(None, "u8", "iterate", length=n)
            k += 1
            cases.append(dict(id="W:iterate_len%d:u8:%s" % (n, mode), template="W:iterate_len", st="u8", prog=prog, in_types=[t.to_json() for t in in_types],
                              owners=[0, 1], outs=[2], mode=mode, kind="ring", vseed=k, staged=True, n_evals=0))
    return cases


def prf_nodes(g):
    out = []
    for i, n in enumerate(g["nodes"]):
        nm = op_name(n)
        if nm in ("PRF", "PermutationFromPRF"):
            out.append((i, int(n["op"][nm][0]), nm))
    return out


@safe_analyze(lambda a: dict(id=a[0]["id"], status=None, findings=[], note="", n_prf=0, queries=0, graphs=0))
def analyze_compiler(args):
    case, res, timeout_s = args
    out = dict(id=case["id"], status=None, findings=[], note="", n_prf=0, queries=0, graphs=0)
    try:
        ctxs = res.get("contexts")
        if ctxs is None:
            out["status"] = "driver_fatal"
            return out
        for i, c in enumerate(ctxs):
            if not c.get("ok"):
                out["status"] = "stage_error"
                out["note"] = c.get("error", "")
                out["panic"] = bool(c.get("panic"))
                return out
        idx = case["_idx"]
        in_types = [T.from_json(j) for j in case["in_types"]]
        for nm in ("U", "F"):
            C = ctxs[idx[nm]]["dump"]
            g = C["graphs"][C["main"]]
            prfs = prf_nodes(g)
            out["n_prf"] += len(prfs)
            out["graphs"] += 1
            ivs = {}
            for nid, iv, kind in prfs:
                ivs.setdefault(iv, []).append(nid)
            dups = {iv: ns for iv, ns in ivs.items() if len(ns) > 1}
            # the literal statement, discharged by the solver for uniformity
            if len(prfs) > 1:
                s = z3.Solver()
                s.add(z3.Not(z3.Distinct(*[z3.BitVecVal(iv, 64) for _, iv, _ in prfs])))
                out["queries"] += 1
                if s.check() == z3.sat:
                    out["findings"].append(dict(kind="dup_iv", graph=nm, text="%s graph: PRF nodes %s share an input counter" % (nm, dict(list(dups.items())[:3]))))
            if dups:
                # semantic: can the keys of two PRF nodes with equal counters differ?
                it = Interp(C, sym=True)
                xs = [it.fresh_value(t, "x%d" % i) for i, t in enumerate(in_types)]
                cin, _ = mc.compiled_inputs_global(it, in_types, case["owners"], xs)
                vs = it.run_graph(C["main"], cin)
                for iv, ns in list(dups.items())[:4]:
                    for a in range(len(ns)):
                        for b in range(a + 1, len(ns)):
                            ka = flat_elems(vs[g["nodes"][ns[a]]["deps"][0]])
                            kb = flat_elems(vs[g["nodes"][ns[b]]["deps"][0]])
                            goal = solve.neq_goal(list(zip(ka, kb)))
                            out["queries"] += 1
                            if goal is None or solve.check_sat(goal, timeout_s=20, use_cvc5=False).verdict == "unsat":
                                out["findings"].append(dict(kind="same_key_same_iv", graph=nm,
                                                            text="%s graph: PRF nodes %d and %d evaluate the same key with the same counter %d: their masks draw the same AES-CTR stream" % (nm, ns[a], ns[b], iv)))
        out["status"] = "finding" if out["findings"] else "ok"
    except Unsupported as e:
        out["status"] = "unsupported"
        out["note"] = str(e)
    return out


def main():
    chk = Check("C04", "other")
    chk.module = "symg.check_c04"
    drv.build()
    # ---- (a) compiler output
    cases = gen_compiler_cases(chk.tier, chk.seed)
    results = drv.run_jobs([check_c01.build_job(c) for c in cases])
    outs = pool_map(analyze_compiler, [(c, r, 60) for c, r in zip(cases, results)])
    for c, o in zip(cases, outs):
        chk.count("compiled_programs")
        chk.count("status_" + str(o["status"]))
        chk.count("prf_nodes_seen", o["n_prf"])
        chk.count("compiled_graphs_checked", o["graphs"])
        chk.count("queries", o["queries"])
        for f in o["findings"]:
            chk.count("finding_" + f["kind"])
            chk.violation("%s|%s|%s" % (f["kind"], c["template"], c["mode"]), "%s owners=%s outs=%s mode=%s: %s" % (c["id"], c["owners"], c["outs"], c["mode"], f["text"]),
                          dict(kind="c04_compiler", module="symg.check_c04", case={k: v for k, v in c.items() if not k.startswith("_")}, finding=f))
        if o["status"] == "ok":
            chk.sample(dict(case=c["id"], prf_nodes=o["n_prf"], verdict="all counters distinct in U and F"), cap=5)
        elif o["status"] == "stage_error" and not o.get("panic") and c.get("may_reject"):
            chk.count("rejected_by_compiler")
        elif o["status"] not in ("finding",):
            chk.inconc("%s: %s %s" % (c["id"], o["status"], o["note"]))
    # ---- (b) optimiser on graphs with Random / PRF nodes
    ocases = [c for c in check_c06.gen_cases(chk.tier, chk.seed + 17) if c["has_random"]]
    oresults = drv.run_jobs([check_c06.build_job(c) for c in ocases])
    oouts = pool_map(check_c06.analyze, [(c, r, 60) for c, r in zip(ocases, oresults)])
    for c, o in zip(ocases, oouts):
        chk.count("optimiser_programs")
        r = o.get("rand") or {}
        chk.count("randomising_nodes_before", r.get("G", 0))
        chk.count("randomising_nodes_after", r.get("O", 0))
        for f in o["findings"]:
            if f["kind"].startswith("rand_"):
                chk.count("finding_" + f["kind"])
                chk.violation("%s|%s" % (f["kind"], c["id"]), "%s: %s" % (c["id"], f["text"]), dict(kind="c04_optimizer", module="symg.check_c04", case={k: v for k, v in c.items() if not k.startswith("_")}, finding=f))
        if o["status"] == "sat":
            # a value difference under tied tapes on a graph with randomness: merged/duplicated/folded randomness shows up here
            chk.violation("semantic|%s" % c["id"], "%s: optimised graph differs from the original under identical random draws (inputs %s)" % (c["id"], (o.get("cex") or {}).get("inputs")),
                          dict(kind="c04_optimizer_semantic", module="symg.check_c04", case={k: v for k, v in c.items() if not k.startswith("_")}, cex=o.get("cex")))
        elif o["status"] == "unsat":
            chk.sample(dict(case=c["id"], randomising_before=r.get("G"), randomising_after=r.get("O"), verdict="equal under tied tapes"), cap=8)
        elif o["status"] not in ("rejected", "finding"):
            chk.inconc("%s: %s %s" % (c["id"], o["status"], o["note"]))
    chk.functions = ["mpc::mpc_compiler::{uniquify_prf_id, prepare_for_mpc_evaluation, compile_context}", "graphs::Operation::{update_prf_id, is_prf_operation, is_randomizing, is_const_optimizable}",
                     "inline::inline_ops::inline_operations", "optimizer::{constant,meta_operation,duplicates,dangling_nodes}_optimizer"]
    chk.bounds = dict(compiled="ring templates sample + Call/Iterate wrappers in 3 modes + bit-level protocol templates (A2B, B2A, OT in MixedMultiply, Truncate2K, ApplyPermutation, Sort) + Iterate lengths {2,5} (quick) / {1,2,3,5,9,17} (thorough), both the staged U and the final F graph",
                      optimiser="C06 grammar restricted to graphs with Random/PRF nodes (shared keys, equal and different counters)")
    chk.outside = ["joins (not applicable)", "program shapes outside the families"]
    chk.assumptions = ["two PRF nodes collide when their counters are equal and the solver cannot make their key terms differ"]
    chk.finish(dict(explanation="(a) for every compiled graph (staged and final) the PRF counters are collected and their distinctness is discharged; for equal counters the solver decides whether the keys can differ. "
                                "(b) for optimiser inputs with randomness each Random node is tied to its preimage under the returned mapping; a merged, invented or folded randomising node or a value difference under tied tapes is a violation",
                    evaluations=len(cases) + len(ocases), distinct_nontrivial=len({c["template"] for c in cases}) + len(ocases),
                    rule="compiled programs with at least one PRF node; optimiser programs with at least one Random/PRF node"))


if __name__ == "__main__":
    main()
