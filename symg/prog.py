"""Program DSL builder: produces the JSON the driver turns into a real Context through
the public graph-building API (Graph::add_node with serde-decoded Operations)."""
from .cctypes import T


class GB:
    def __init__(self, ctx, gid):
        self.ctx = ctx
        self.gid = gid
        self.nodes = []
        self.output = None
        self.ann = []
        self.name = None

    def node(self, op, deps=(), gdeps=(), name=None, ann=None):
        n = {"op": op, "deps": [int(d) for d in deps]}
        if gdeps:
            n["gdeps"] = [int(g) for g in gdeps]
        if name:
            n["name"] = name
        if ann:
            n["ann"] = ann
        self.nodes.append(n)
        return len(self.nodes) - 1

    # ---- convenience
    def input(self, t, name=None):
        return self.node({"Input": t.to_json()}, name=name)

    def const(self, t, dec):
        return self.node({"ConstantDec": [t.to_json(), dec]})

    def zeros(self, t):
        return self.node({"Zeros": t.to_json()})

    def ones(self, t):
        return self.node({"Ones": t.to_json()})

    def add(self, a, b):
        return self.node("Add", [a, b])

    def sub(self, a, b):
        return self.node("Subtract", [a, b])

    def mul(self, a, b):
        return self.node("Multiply", [a, b])

    def mixed_mul(self, a, b):
        return self.node("MixedMultiply", [a, b])

    def dot(self, a, b):
        return self.node("Dot", [a, b])

    def matmul(self, a, b):
        return self.node("Matmul", [a, b])

    def gemm(self, a, b, ta, tb):
        return self.node({"Gemm": [ta, tb]}, [a, b])

    def truncate(self, a, scale):
        return self.node({"Truncate": scale}, [a])

    def sum(self, a, axes):
        return self.node({"Sum": list(axes)}, [a])

    def cumsum(self, a, axis):
        return self.node({"CumSum": axis}, [a])

    def permute_axes(self, a, perm):
        return self.node({"PermuteAxes": list(perm)}, [a])

    def get(self, a, idx):
        return self.node({"Get": list(idx)}, [a])

    def get_slice(self, a, sl):
        """sl: list of int | (start, stop, step) | '...'"""
        out = []
        for s in sl:
            if s == "...":
                out.append("Ellipsis")
            elif isinstance(s, int):
                out.append({"SingleIndex": s})
            else:
                out.append({"SubArray": list(s)})
        return self.node({"GetSlice": out}, [a])

    def reshape(self, a, t):
        return self.node({"Reshape": t.to_json()}, [a])

    def nop(self, a, ann=None):
        return self.node("NOP", [a], ann=ann)

    def random(self, t):
        return self.node({"Random": t.to_json()})

    def prf(self, key, iv, t):
        return self.node({"PRF": [iv, t.to_json()]}, [key])

    def stack(self, xs, outer):
        return self.node({"Stack": list(outer)}, xs)

    def concat(self, xs, axis):
        return self.node({"Concatenate": axis}, xs)

    def a2b(self, a):
        return self.node("A2B", [a])

    def b2a(self, a, st):
        return self.node({"B2A": st}, [a])

    def tuple(self, xs):
        return self.node("CreateTuple", xs)

    def ntuple(self, named):
        return self.node({"CreateNamedTuple": [n for n, _ in named]}, [x for _, x in named])

    def vector(self, xs, t):
        return self.node({"CreateVector": t.to_json()}, xs)

    def tuple_get(self, a, i):
        return self.node({"TupleGet": i}, [a])

    def ntuple_get(self, a, name):
        return self.node({"NamedTupleGet": name}, [a])

    def vector_get(self, a, i):
        return self.node("VectorGet", [a, i])

    def zip(self, xs):
        return self.node("Zip", xs)

    def repeat(self, a, n):
        return self.node({"Repeat": n}, [a])

    def a2v(self, a):
        return self.node("ArrayToVector", [a])

    def v2a(self, a):
        return self.node("VectorToArray", [a])

    def gather(self, a, idx, axis):
        return self.node({"Gather": axis}, [a, idx])

    def inverse_permutation(self, a):
        return self.node("InversePermutation", [a])

    def apply_permutation(self, a, p, inverse=False):
        return self.node({"ApplyPermutation": inverse}, [a, p])

    def sort(self, a, key):
        return self.node({"Sort": key}, [a])

    def call(self, g, args):
        return self.node("Call", args, gdeps=[g.gid if isinstance(g, GB) else g])

    def iterate(self, g, state, inp):
        return self.node("Iterate", [state, inp], gdeps=[g.gid if isinstance(g, GB) else g])

    def custom(self, typ, args, **params):
        body = {"type": typ}
        body.update(params)
        return self.node({"Custom": {"body": body}}, args)

    def set_output(self, n):
        self.output = n
        return self

    def to_json(self):
        j = {"nodes": self.nodes, "output": self.output}
        if self.ann:
            j["ann"] = self.ann
        if self.name:
            j["name"] = self.name
        return j


class CB:
    def __init__(self):
        self.graphs = []
        self.main = None

    def graph(self):
        g = GB(self, len(self.graphs))
        self.graphs.append(g)
        return g

    def to_json(self):
        main = self.main if self.main is not None else len(self.graphs) - 1
        return {"graphs": [g.to_json() for g in self.graphs], "main": main}


def single_graph(build):
    """build(g) must return the output node id"""
    c = CB()
    g = c.graph()
    out = build(g)
    g.set_output(out)
    return c.to_json()
