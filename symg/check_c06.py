"""C06 - graph optimisation preserves meaning and interface.
Real code encoded: optimizer::optimize::optimize_context (constant_optimizer, meta_operation_optimizer,
duplicates_optimizer, dangling_nodes_optimizer), the ContextMappings it returns, Context serde round trip."""
import random
import time

import z3

from . import drv, vals, solve, validate, gen, mpc_common as mc
from .cctypes import T
from .common import Check, pool_map, safe_analyze
from .interp import Interp, Unsupported, flat_elems, shape_of, shape_of_type
from .validate import op_name, RANDOMISING


def gen_cases(tier, seed):
    cases = []
    n = 150 if tier == "quick" else 800
    type_sets = [["u8", "bit"], ["i32", "bit", "u8"], ["u64", "i8"], ["i16", "bit"], ["i128", "u8"], ["bit"], ["u64", "bit"]]
    for r in range(n):
        rs = seed * 1000003 + r
        rng = random.Random(rs)
        sts = type_sets[r % len(type_sets)]
        op = gen.OptProg(rng, sts)
        n_in = rng.choice([1, 2, 3])
        for i in range(n_in):
            st = rng.choice(sts)
            shape = rng.choice([s for s in gen.SHAPES if gen.nelem(s) <= 6])
            if st == "bit" and rng.random() < 0.4:
                shape = rng.choice([(8,), (2, 8)])
            t = gen.arr_t(shape, st)
            nid = op.g.input(t, name=("in%d" % i) if rng.random() < 0.7 else None)
            op.in_types.append(t)
            if not (i == n_in - 1 and rng.random() < 0.25):  # sometimes an unused input
                op.add_val(nid, t)
            elif not op.vals:
                op.add_val(nid, t)
        op.grow_opt(rng.randint(4, 10 if tier == "quick" else 16))
        live = op.vals[-1][0]
        if rng.random() < 0.35 and len(op.vals) >= 3:
            live = op.g.tuple([op.vals[-1][0], op.vals[-3][0]])
        # a few dangling nodes after the live output
        prog = op.finish(live)
        cases.append(dict(id="O:%d" % rs, prog=prog, in_types=[t.to_json() for t in op.in_types], vseed=rs,
                          has_random=op.has_random, has_send=op.has_send, ops=op.ops_used))
    return cases


def compiled_cases(tier, seed):
    """compiler output: U = prepare_for_mpc_evaluation(prepare_context(S)) as the optimiser's input"""
    from . import progs_mpc
    cases = []
    allc = [c for c in progs_mpc.gen_cases("quick", seed) if c["st"] in ("i8", "u8", "bit") and not c["id"].startswith("B:")]
    step = 12 if tier == "quick" else 3
    for i, c in enumerate(allc):
        if (i + seed) % step:
            continue
        cases.append(dict(id="U:" + c["id"], prog=c["prog"], in_types=c["in_types"], owners=c["owners"], outs=c["outs"], mode=c["mode"], compiled=True,
                          vseed=c["vseed"], has_random=True, has_send=True, ops=["compiled"]))
    return cases


def build_job(case):
    rng = random.Random(case["vseed"])
    in_types = [T.from_json(j) for j in case["in_types"]]
    evals = []
    case["_eval_inputs"] = []
    if case.get("compiled"):
        io = dict(inputs=case["owners"], outputs=case["outs"], inline=case["mode"])
        stages = [dict(op="prepare_context", **{"from": 0}, inline=case["mode"]), dict(op="prepare_mpc", **{"from": 1}, **io),
                  dict(op="optimize", **{"from": 2}), dict(op="serde", **{"from": 3})]
        return dict(id=case["id"], ctx=case["prog"], stages=stages, dump=[2, 3, 4], evals=[])
    for k in range(2):
        xs = [vals.sample_value(t, rng, "boundary" if k == 0 else "random") for t in in_types]
        enc = [vals.enc(t, d) for t, d in zip(in_types, xs)]
        evals.append(dict(ctx=0, inputs=enc))
        evals.append(dict(ctx=1, inputs=enc))
        case["_eval_inputs"].append(xs)
    stages = case.get("stages") or [dict(op="optimize", **{"from": 0}), dict(op="serde", **{"from": 1})]
    return dict(id=case["id"], ctx=case["prog"], stages=stages, evals=evals)


def rand_preimages(G, O, mapping):
    """for each randomising node of O: list of randomising preimages in G"""
    gG, gO = G["graphs"][G["main"]], O["graphs"][O["main"]]
    pre = {}
    for k, v in mapping.items():
        g, n = k.split(":")
        if int(g) != G["main"] or v[0] != O["main"]:
            continue
        if op_name(gG["nodes"][int(n)]) in RANDOMISING:
            pre.setdefault(v[1], []).append(int(n))
    return pre


def interface(ctx):
    g = ctx["graphs"][ctx["main"]]
    return [(n["op"]["Input"], n.get("name")) for n in g["nodes"] if op_name(n) == "Input"]


@safe_analyze(lambda a: dict(id=a[0]["id"], status=None, queries=[], note="", cex=None, n_nodes=(0, 0), validated=0, mism=[], findings=[], mapped=0, identical=0))
def analyze(args):
    case, res, timeout_s = args
    out = dict(id=case["id"], status=None, queries=[], note="", cex=None, n_nodes=(0, 0), validated=0, mism=[], findings=[], mapped=0, identical=0)
    try:
        ctxs = res.get("contexts")
        if ctxs is None:
            out["status"] = "driver_fatal"
            out["note"] = str(res.get("fatal"))
            return out
        if case.get("compiled"):
            if not all(c.get("ok") for c in ctxs[:3]):
                out["status"] = "rejected"
                out["note"] = str([c.get("error") for c in ctxs[:3] if not c.get("ok")][:1])
                return out
            ctxs = ctxs[2:]  # G = U (prepare_for_mpc_evaluation output), O = optimize_context(U), then the reload
        if not ctxs[0].get("ok"):
            out["status"] = "rejected"
            out["note"] = ctxs[0].get("error", "")
            return out
        if not ctxs[1].get("ok"):
            out["status"] = "finding"
            out["findings"].append(dict(kind="optimize_failed", text="optimize_context failed on a well-typed inlined graph: %s" % ctxs[1].get("error")))
            return out
        G, O = ctxs[0]["dump"], ctxs[1]["dump"]
        mapping = ctxs[1].get("mapping", {})
        gG, gO = G["graphs"][G["main"]], O["graphs"][O["main"]]
        out["n_nodes"] = (len(gG["nodes"]), len(gO["nodes"]))
        # (4) interface
        if interface(G) != interface(O):
            out["findings"].append(dict(kind="interface", text="input list changed: %s -> %s" % (interface(G), interface(O))))
        # (5) recorded types vs re-inferred types after the serde round trip
        if len(ctxs) > 2:
            if not ctxs[2].get("ok"):
                out["findings"].append(dict(kind="reload", text="optimised context cannot be reloaded: %s" % ctxs[2].get("error")))
            else:
                R = ctxs[2]["dump"]
                gR = R["graphs"][R["main"]]
                if len(gR["nodes"]) != len(gO["nodes"]):
                    out["findings"].append(dict(kind="reload", text="reloaded graph has %d nodes, optimised %d" % (len(gR["nodes"]), len(gO["nodes"]))))
                else:
                    for i, (a, b) in enumerate(zip(gO["nodes"], gR["nodes"])):
                        if a.get("type") != b.get("type"):
                            out["findings"].append(dict(kind="type", text="node %d %s: optimiser recorded %s, type inference gives %s" % (i, op_name(a), a.get("type"), b.get("type"))))
                            break
        # send markers (syntactic part): every Send annotation of O exists in G
        in_types = [T.from_json(n["op"]["Input"]) for n in gG["nodes"] if op_name(n) == "Input"]
        # --- translator validation
        evs = res.get("evals", [])
        for k in range(len(evs) // 2):
            for ev, C, nm in ((evs[2 * k], G, "G"), (evs[2 * k + 1], O, "O")):
                v = validate.validate(C, ev, case["_eval_inputs"][k])
                if v["ok"] is False:
                    out["mism"].append(dict(graph=nm, mismatches=v["mismatches"][:3]))
                elif v["ok"]:
                    out["validated"] += 1
        if out["mism"]:
            out["status"] = "validation_mismatch"
            return out
        # --- randomising nodes: preimages (C04b data)
        pre = rand_preimages(G, O, mapping)
        rnd_O = [i for i, n in enumerate(gO["nodes"]) if op_name(n) in RANDOMISING]
        rnd_G = [i for i, n in enumerate(gG["nodes"]) if op_name(n) in RANDOMISING]
        out["rand"] = dict(G=len(rnd_G), O=len(rnd_O))
        for i in rnd_O:
            ps = pre.get(i, [])
            if len(ps) == 0:
                out["findings"].append(dict(kind="rand_invented", text="optimised node %d (%s) has no randomising preimage" % (i, op_name(gO["nodes"][i]))))
            elif len(ps) > 1:
                # the property forbids merging for PRF evaluations as well (value-preserving for identical key/counter/type,
                # but two masks the protocol treats as independent become one node)
                out["findings"].append(dict(kind="rand_merged", text="%s nodes %s merged into optimised node %d" % (op_name(gO["nodes"][i]), ps, i)))
        for k, v in mapping.items():
            g, n = k.split(":")
            if int(g) == G["main"] and op_name(gG["nodes"][int(n)]) in RANDOMISING and op_name(gO["nodes"][v[1]]) not in RANDOMISING:
                out["findings"].append(dict(kind="rand_folded", text="randomising node %s mapped to %s" % (n, op_name(gO["nodes"][v[1]]))))
        # --- symbolic, global semantics
        it = Interp(G, sym=True)
        xs = [it.fresh_value(t, "x%d" % i) for i, t in enumerate(in_types)]
        gv = it.run_graph(G["main"], xs)
        g_rand = dict(it.rand_at)  # randomising symbols of the ORIGINAL graph only (the replay overrides these)
        g_err = list(it.errors)
        it.errors = []
        it.ctx = O
        it.tag = "O."
        it.rand_symbols = {}
        for i in rnd_O:
            ps = pre.get(i, [])
            if len(ps) >= 1 and op_name(gO["nodes"][i]) in ("Random", "RandomPermutation"):
                it.rand_symbols[(O["main"], i)] = gv[ps[0]]
        try:
            ov = it.run_graph(O["main"], xs)
        except (ValueError, IndexError, AssertionError, KeyError, TypeError) as e:
            out["findings"].append(dict(kind="not_evaluable", text="the optimised graph cannot be evaluated under the documented semantics (operand shapes/types no longer fit): %r" % (e,)))
            out["status"] = "finding"
            return out
        for nid, n in enumerate(gO["nodes"]):
            if shape_of(ov[nid]) != shape_of_type(T.from_json(n["type"])):
                out["findings"].append(dict(kind="type", text="optimised node %d %s: recorded type %s but the operation produces %s" % (nid, op_name(n), n["type"], shape_of(ov[nid]))))
        pairs = []
        pair_nodes = []
        for k, v in sorted(mapping.items()):
            g, n = k.split(":")
            if int(g) != G["main"]:
                continue
            a, b = gv[int(n)], ov[v[1]]
            fa, fb = flat_elems(a), flat_elems(b)
            out["mapped"] += 1
            if gG["nodes"][int(n)].get("type") != gO["nodes"][v[1]].get("type"):
                out["findings"].append(dict(kind="mapping_type", text="node %s of type %s maps to node %d of type %s" % (
                    n, gG["nodes"][int(n)].get("type"), v[1], gO["nodes"][v[1]].get("type"))))
            if len(fa) != len(fb):
                out["findings"].append(dict(kind="mapping_shape", text="node %s maps to node %d of a different layout" % (n, v[1])))
                continue
            if all(x.eq(y) for x, y in zip(fa, fb)):
                out["identical"] += 1
                continue
            pairs.extend(zip(fa, fb))
            pair_nodes.append((int(n), v[1]))
        if gG["nodes"][gG["output"]].get("type") != gO["nodes"][gO["output"]].get("type"):
            out["findings"].append(dict(kind="output_type", text="output type changed from %s to %s" % (
                gG["nodes"][gG["output"]].get("type"), gO["nodes"][gO["output"]].get("type"))))
        po = mc.eq_pairs(gv[gG["output"]], ov[gO["output"]])
        if po is None:
            out["findings"].append(dict(kind="output_shape", text="output layout changed"))
            po = []
        goal = solve.neq_goal(pairs + po)
        bad = goal if goal is not None else z3.BoolVal(False)
        if it.errors or g_err:
            eg = z3.Or(*g_err) if g_err else z3.BoolVal(False)
            eo = z3.Or(*it.errors) if it.errors else z3.BoolVal(False)
            bad = z3.Or(bad, eg != eo)
        want = [("x", i, x) for i, x in enumerate(xs)]
        for (where, who), v in g_rand.items():
            want.append(("r", where, v))
        terms = []
        for _, _, v in want:
            terms.extend(flat_elems(v))
        kind = "bits" if any(o in case.get("ops", []) for o in ("a2b_b2a", "b2a_a2b")) else "mixed"
        r = solve.check_sat_forked(bad, list(it.assumptions), model_terms=terms, timeout_s=timeout_s, kind=kind)
        out["queries"].append(dict(name="global", verdict=r.verdict, tactic=r.tactic, secs=round(r.secs, 3), note=r.note))
        status = r.verdict
        if r.verdict == "sat" and r.model is not None:
            pos = [0]
            got = {}
            for kk, key, v in want:
                got[(kk, key)] = mc.nest_like(v, r.model, pos)
            ovrG, ovrO = {}, {}
            for kk, key, v in want:
                if kk == "r":
                    d = vals.enc(mc.value_type(v), got[(kk, key)])
                    # key = (gid, nid); symbols created while running G have tag '', O's 'O.'
                    ovrG["%d:%d" % (key[-2], key[-1])] = d
            # O's overrides: every randomising node of O gets the value of its symbol
            out["cex"] = dict(inputs=[got[("x", i)] for i in range(len(xs))], rand=[(list(key), got[(kk, key)], repr(mc.value_type(v).to_json())) for kk, key, v in want if kk == "r"])
        elif r.verdict == "sat":
            status = "unknown"
        # --- three-view semantics when Send markers are present
        if status == "unsat" and (case.get("has_send") or case.get("compiled")):
            it3 = Interp(G, sym=True)
            in3 = [[it3.fresh_value(t, "x%d_p%d" % (i, p)) for p in range(3)] for i, t in enumerate(in_types)]
            gpv = it3.run_parties(G["main"], in3)
            it3.ctx = O
            it3.tag = "O."
            it3.rand_symbols = {}
            for i in rnd_O:
                ps = pre.get(i, [])
                if len(ps) >= 1 and op_name(gO["nodes"][i]) in ("Random", "RandomPermutation"):
                    it3.rand_symbols[(O["main"], i)] = {p: gpv[p][ps[0]] for p in range(3)}
            it3.errors = []
            opv = it3.run_parties(O["main"], in3)
            pairs3 = []
            for p in range(3):
                pp = mc.eq_pairs(gpv[p][gG["output"]], opv[p][gO["output"]])
                if pp:
                    pairs3.extend(pp)
            goal3 = solve.neq_goal(pairs3)
            if goal3 is not None:
                terms3 = []
                for k3 in range(len(in_types)):
                    for p3 in range(3):
                        terms3.extend(flat_elems(in3[k3][p3]))
                r3 = solve.check_sat_forked(goal3, list(it3.assumptions), model_terms=terms3, timeout_s=timeout_s, kind=kind)
                out["queries"].append(dict(name="three_view", verdict=r3.verdict, tactic=r3.tactic, secs=round(r3.secs, 3), note=r3.note))
                if r3.verdict == "sat":
                    cex3 = None
                    if r3.model is not None:
                        pos3 = [0]
                        cex3 = [[mc.nest_like(in3[k3][p3], r3.model, pos3) for p3 in range(3)] for k3 in range(len(in_types))]
                    out["findings"].append(dict(kind="send", inputs3=cex3, text="per-party output differs after optimisation (a Send marker was lost or moved to a node carrying another value); per-party inputs %s" % (cex3,)))
                elif r3.verdict != "unsat":
                    status = "unknown"
            else:
                out["queries"].append(dict(name="three_view", verdict="unsat", tactic="syntactic", secs=0.0, note=""))
        out["status"] = status
    except Unsupported as e:
        out["status"] = "unsupported"
        out["note"] = str(e)
    return out


def replay_global(case, cex):
    """evaluate G and O with the real evaluator on the model's inputs and random draws"""
    in_types = [T.from_json(j) for j in case["in_types"]]
    enc = [vals.enc(t, d) for t, d in zip(in_types, cex["inputs"])]
    return dict(id=case["id"], ctx=case["prog"], stages=[dict(op="optimize", **{"from": 0})], evals=[dict(ctx=0, inputs=enc), dict(ctx=1, inputs=enc)])


def judge_global(case, cex, rr, first):
    """run twice: first pass to learn which nodes are random; we simply override Random
    nodes of G with the model values and those of O with the values of their preimages."""
    return None


def main():
    chk = Check("C06", "translation_validation")
    chk.module = "symg.check_c06"
    cases = gen_cases(chk.tier, chk.seed) + compiled_cases(chk.tier, chk.seed)
    timeout_s = 60 if chk.tier == "quick" else 300
    drv.build()
    results = drv.run_jobs([build_job(c) for c in cases])
    outs = pool_map(analyze, [(c, r, timeout_s) for c, r in zip(cases, results)])
    replay = []
    for c, o in zip(cases, outs):
        chk.count("programs")
        chk.count("status_" + str(o["status"]))
        chk.count("validation_vectors", o["validated"])
        chk.count("mapped_nodes", o["mapped"])
        chk.count("mapped_nodes_syntactically_identical", o["identical"])
        chk.count("nodes_before", o["n_nodes"][0])
        chk.count("nodes_after", o["n_nodes"][1])
        for q in o["queries"]:
            chk.count("queries")
            chk.count("tactic_%s" % q["tactic"])
            chk.solver_secs += q["secs"]
        for f in o["findings"]:
            if f["kind"].startswith("rand_"):
                continue  # reported by C04
            if f["kind"] == "send" and f.get("inputs3") is not None and not c.get("has_random") and not c.get("compiled"):
                # native replay: three-party executor on the original and on the optimised graph
                in_types = [T.from_json(j) for j in c["in_types"]]
                inputs3 = [[vals.enc(t, f["inputs3"][k][p]) for p in range(3)] for k, t in enumerate(in_types)]
                rr = drv.run_job(dict(ctx=c["prog"], stages=[dict(op="optimize", **{"from": 0})], dump=[],
                                      party_evals=[dict(ctx=0, inputs=inputs3), dict(ctx=1, inputs=inputs3)]))
                pe = rr.get("party_evals", [{}, {}])
                a = [q.get("output") for q in (pe[0].get("parties") or [])]
                b = [q.get("output") for q in (pe[1].get("parties") or [])]
                chk.count("three_view_models_replayed")
                if a == b:
                    chk.inconc("%s: three-view model did not reproduce in the three-party executor" % c["id"])
                    continue
                f = dict(f, text=f["text"] + "; three-party executor: original per-party outputs %s, optimised %s" % (a, b))
            chk.count("finding_" + f["kind"])
            chk.violation("%s|%s" % (f["kind"], c["id"]), "%s: %s" % (c["id"], f["text"]),
                          dict(kind="c06_static", module="symg.check_c06", case={k: v for k, v in c.items() if not k.startswith("_")}, finding=f))
        if o["status"] == "unsat":
            chk.sample(dict(case=c["id"], ops=c["ops"], nodes_before=o["n_nodes"][0], nodes_after=o["n_nodes"][1], mapped=o["mapped"],
                            queries=[(q["name"], q["verdict"], q["tactic"], q["secs"]) for q in o["queries"]]))
        elif o["status"] == "sat":
            replay.append((c, o))
        elif o["status"] in ("rejected", "finding"):
            pass
        else:
            chk.inconc("%s: %s %s %s %s" % (c["id"], o["status"], o["note"], o["queries"][-1:], str(o["mism"][:1])[:300]))
    # --- replay: real evaluator on G and O, Random nodes overridden consistently
    if replay:
        jobs = []
        for c, o in replay:
            if c.get("compiled"):
                io = dict(inputs=c["owners"], outputs=c["outs"], inline=c["mode"])
                stages = [dict(op="prepare_context", **{"from": 0}, inline=c["mode"]), dict(op="prepare_mpc", **{"from": 1}, **io), dict(op="optimize", **{"from": 2})]
                gi, oi = 2, 3
            else:
                stages = [dict(op="optimize", **{"from": 0})]
                gi, oi = 0, 1
            c["_gi"], c["_oi"] = gi, oi
            ovrG = {}
            for key, d, tj in o["cex"]["rand"]:
                t = T.from_json(eval(tj))
                ovrG["%d:%d" % (key[-2], key[-1])] = vals.enc(t, d)
            jobs.append(dict(id=c["id"], ctx=c["prog"], stages=stages, dump=[gi, oi], evals=[dict(ctx=gi, inputs=None, overrides=ovrG)], _cex=o["cex"]["inputs"]))
        # inputs are typed by G's own Input nodes: first pass only dumps, to learn the types
        r0 = drv.run_jobs([dict(id=j["id"], ctx=j["ctx"], stages=j["stages"], dump=j["dump"]) for j in jobs])
        for (c, o), j, rr in zip(replay, jobs, r0):
            G = rr["contexts"][c["_gi"]]["dump"]
            gts = [T.from_json(n["op"]["Input"]) for n in G["graphs"][G["main"]]["nodes"] if op_name(n) == "Input"]
            j["evals"][0]["inputs"] = [vals.enc(t, d) for t, d in zip(gts, j.pop("_cex"))]
        r1 = drv.run_jobs(jobs)
        jobs2 = []
        for (c, o), j, rr in zip(replay, jobs, r1):
            G, O = rr["contexts"][c["_gi"]]["dump"], rr["contexts"][c["_oi"]]["dump"]
            mapping = rr["contexts"][c["_oi"]].get("mapping", {})
            pre = rand_preimages(G, O, mapping)
            tr = rr["evals"][0].get("nodes", {})
            ovrO = {}
            for i, ps in pre.items():
                if ps and str(ps[0]) in tr:
                    ovrO["%d:%d" % (O["main"], i)] = tr[str(ps[0])]
            j2 = dict(j)
            j2["evals"] = [j["evals"][0], dict(ctx=c["_oi"], inputs=j["evals"][0]["inputs"], overrides=ovrO)]
            jobs2.append(j2)
        r2 = drv.run_jobs(jobs2)
        for (c, o), j2, rr in zip(replay, jobs2, r2):
            chk.count("models_replayed")
            evG, evO = rr["evals"]
            mapping = rr["contexts"][c["_oi"]].get("mapping", {})
            why = None
            if evG.get("ok") != evO.get("ok"):
                why = "original evaluates ok=%s, optimised ok=%s (%s)" % (evG.get("ok"), evO.get("ok"), evO.get("error") or evG.get("error"))
            elif evG.get("ok") and evG["output"] != evO["output"]:
                why = "outputs differ: %s vs %s" % (evG["output"], evO["output"])
            else:
                for k, v in sorted(mapping.items()):
                    g, n = k.split(":")
                    a, b = evG.get("nodes", {}).get(n), evO.get("nodes", {}).get(str(v[1]))
                    if a is not None and b is not None and a != b:
                        why = "original node %s has value %s, its mapped node %d has %s" % (n, a, v[1], b)
                        break
            if why:
                chk.violation("semantic|%s" % c["id"], "%s inputs=%s: %s" % (c["id"], o["cex"]["inputs"], why),
                              dict(kind="c06", module="symg.check_c06", case={k: v for k, v in c.items() if not k.startswith("_")}, cex=o["cex"], job=j2))
            else:
                chk.inconc("%s: solver model did not reproduce on the real evaluator" % c["id"])
    chk.functions = ["optimizer::optimize::optimize_context", "optimizer::constant_optimizer::optimize_graph_constants", "optimizer::meta_operation_optimizer::optimize_graph_meta_operations",
                     "optimizer::duplicates_optimizer::optimize_graph_duplicates", "optimizer::dangling_nodes_optimizer::optimize_graph_dangling_nodes",
                     "custom_ops::ContextMappings (returned mapping)", "graphs::Context serde round trip (re-runs type inference)"]
    chk.bounds = dict(programs=len(cases), ops_per_graph="4..10 (quick) / 4..16 (thorough) generated ops plus inputs", max_elements=8,
                      grammar="elementwise, dot/matmul/gemm, sum/cumsum, structural, tuple/named tuple/vector/zip/a2v/repeat + getters, constants/zeros/ones, A2B->B2A and B2A->A2B chains, Random, PRF (shared keys), NOP with Send, verbatim duplicates, dangling nodes, unused/named inputs")
    chk.outside = ["compiler output beyond the sampled ring templates (every 12th 8-bit C01 program in quick, every 3rd in thorough)", "Call/Iterate (optimiser requires inlined graphs)"]
    chk.assumptions = ["Random nodes: the optimised node draws what its preimage (under the returned mapping) draws; PRF: congruence on (key term, iv, type)",
                       "three-view check: every party holds an arbitrary value for every input; values cross only at Send-annotated nodes"]
    chk.finish(dict(programs=len(cases), disagreements_checked=chk.counts.get("models_replayed", 0), evaluations=len(cases),
                    distinct_nontrivial=sum(1 for o in outs if o["n_nodes"][0] != o["n_nodes"][1]),
                    rule="random inlined graphs from the optimiser-oriented grammar; non-trivial = the optimiser changed the node count",
                    explanation="original graph G vs optimize_context(G): output equality and equality of every mapped node as one SMT query per graph over all inputs and random draws; "
                                "three-view variant for graphs with Send markers; interface and recorded-vs-reinferred types compared on the dumps"))


if __name__ == "__main__":
    main()
