"""Shared pieces for the MPC-compiler checks (C01, C02, C03, C04, C05)."""
import random

import z3

from . import vals
from .cctypes import T
from .interp import Interp, Arr, vmap, flat_elems, input_types, leaves


def mpc_stages(owners, outs, mode, staged=False):
    io = dict(inputs=list(owners), outputs=list(outs), inline=mode)
    if not staged:
        return [dict(op="compile_context", **{"from": 0}, **io)], dict(F=1)
    st = [
        dict(op="prepare_context", **{"from": 0}, inline=mode),        # 1: P
        dict(op="prepare_mpc", **{"from": 1}, **io),                   # 2: U
        dict(op="optimize", **{"from": 2}),                            # 3: F'
        dict(op="compile_context", **{"from": 0}, **io),               # 4: F
    ]
    return st, dict(P=1, U=2, Fp=3, F=4)


def vsub(it, x, y):
    return vmap(lambda a, b: it.binop("sub", a, b), x, y)


def vadd(it, x, y):
    return vmap(lambda a, b: it.binop("add", a, b), x, y)


def compiled_inputs_global(it, in_types, owners, xs):
    """xs: plaintext input values. returns (compiled inputs, share variables list)"""
    out = []
    shares = []
    for i, (t, o, x) in enumerate(zip(in_types, owners, xs)):
        if o == "shared":
            s0 = it.fresh_value(t, "sh%d_0" % i)
            s1 = it.fresh_value(t, "sh%d_1" % i)
            s2 = vsub(it, vsub(it, x, s0), s1)
            out.append([s0, s1, s2])
            shares.append((i, s0, s1))
        else:
            out.append(x)
    return out, shares


def compiled_inputs_parties(it, in_types, owners, xs):
    """three-view inputs: inputs3[k][p]. Junk is fresh per (input, party)."""
    out = []
    junk = []
    shares = []
    for i, (t, o, x) in enumerate(zip(in_types, owners, xs)):
        if o == "public":
            out.append([x, x, x])
        elif o == "shared":
            s0 = it.fresh_value(t, "sh%d_0" % i)
            s1 = it.fresh_value(t, "sh%d_1" % i)
            s2 = vsub(it, vsub(it, x, s0), s1)
            sh = [s0, s1, s2]
            shares.append((i, s0, s1))
            views = []
            for p in range(3):
                j = it.fresh_value(t, "junk%d_p%d" % (i, p))
                junk.append((i, p, j))
                v = list(sh)
                v[(p + 2) % 3] = j  # party p holds shares p and p+1
                views.append(v)
            out.append(views)
        else:
            views = []
            for p in range(3):
                if p == int(o):
                    views.append(x)
                else:
                    j = it.fresh_value(t, "junk%d_p%d" % (i, p))
                    junk.append((i, p, j))
                    views.append(j)
            out.append(views)
    return out, shares, junk


def sum3(it, v):
    return vadd(it, vadd(it, v[0], v[1]), v[2])


def eq_pairs(x, y):
    ex, ey = flat_elems(x), flat_elems(y)
    if len(ex) != len(ey):
        return None
    return list(zip(ex, ey))


def concrete_compiled_inputs(in_types, owners, xs_dec, rng):
    """concrete compiled inputs (nested ints) for the global evaluator: shared inputs get a
    random sharing. returns (types, decs)"""
    from .cctypes import st_bits
    types, decs = [], []

    def sub(t, a, b):
        if t.is_arr():
            m = 1 << st_bits(t.st)
            return [(p - q) % m for p, q in zip(a, b)]
        return [sub(c, p, q) for c, p, q in zip(t.children(), a, b)]

    for t, o, x in zip(in_types, owners, xs_dec):
        if o == "shared":
            s0 = vals.sample_value(t, rng, "random")
            s1 = vals.sample_value(t, rng, "boundary")
            s2 = sub(t, sub(t, x, s0), s1)
            types.append(T.tuple([t, t, t]))
            decs.append([s0, s1, s2])
        else:
            types.append(t)
            decs.append(x)
    return types, decs


def plain_from_compiled(in_types, owners, decs):
    """inverse: recover plaintext inputs from compiled concrete inputs"""
    from .cctypes import st_bits

    def add(t, a, b):
        if t.is_arr():
            m = 1 << st_bits(t.st)
            return [(p + q) % m for p, q in zip(a, b)]
        return [add(c, p, q) for c, p, q in zip(t.children(), a, b)]
    out = []
    for t, o, d in zip(in_types, owners, decs):
        if o == "shared":
            out.append(add(t, add(t, d[0], d[1]), d[2]))
        else:
            out.append(d)
    return out


def rand_overrides(it, ctx, ints_iter):
    """after a model: map every randomising symbol created (it.rand_log) to concrete VALs.
    ints_iter yields model ints in the order of model_terms built by rand_terms()."""
    pass


def rand_terms(it):
    """flat list of the z3 terms of all Random/PRF symbols, plus a structure to rebuild
    overrides: [(where, who, type-skeleton value)]"""
    terms = []
    index = []
    for entry in it.rand_log:
        kind, where, who, v = entry[0], entry[1], entry[2], entry[3]
        if kind == "tied":
            continue
        fl = flat_elems(v)
        index.append((where, who, len(fl), v))
        terms.extend(fl)
    return terms, index


def value_type(v):
    """T of an interpreter value (containers become tuples - enough for encoding)"""
    if isinstance(v, Arr):
        return T.scalar(v.st) if v.shape == () else T.array(v.shape, v.st)
    return T.tuple([value_type(x) for x in v])


def nest_like(v, ints, pos):
    if isinstance(v, Arr):
        n = len(v.flat())
        r = ints[pos[0]:pos[0] + n]
        pos[0] += n
        return r
    return [nest_like(x, ints, pos) for x in v]
