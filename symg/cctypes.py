"""ciphercore types on the Python side (mirror of the serde JSON of data_types::Type)."""

SCALARS = ["bit", "u8", "i8", "u16", "i16", "u32", "i32", "u64", "i64", "u128", "i128"]


def st_bits(st):
    return 1 if st == "bit" else int(st[1:])


def st_signed(st):
    return st[0] == "i"


class T:
    """kind in {'scalar','array','vector','tuple','ntuple'}"""

    __slots__ = ("kind", "st", "shape", "n", "elem", "items", "names")

    def __init__(self, kind, st=None, shape=None, n=None, elem=None, items=None, names=None):
        self.kind = kind
        self.st = st
        self.shape = tuple(shape) if shape is not None else None
        self.n = n
        self.elem = elem
        self.items = items
        self.names = names

    # --- constructors
    @staticmethod
    def scalar(st):
        return T("scalar", st=st, shape=())

    @staticmethod
    def array(shape, st):
        return T("array", st=st, shape=shape)

    @staticmethod
    def vector(n, elem):
        return T("vector", n=n, elem=elem)

    @staticmethod
    def tuple(items):
        return T("tuple", items=list(items))

    @staticmethod
    def ntuple(named):
        return T("ntuple", items=[t for _, t in named], names=[n for n, _ in named])

    def is_arr(self):
        return self.kind in ("scalar", "array")

    def dims(self):
        return self.shape

    def to_json(self):
        if self.kind == "scalar":
            return {"Scalar": self.st}
        if self.kind == "array":
            return {"Array": [list(self.shape), self.st]}
        if self.kind == "vector":
            return {"Vector": [self.n, self.elem.to_json()]}
        if self.kind == "tuple":
            return {"Tuple": [t.to_json() for t in self.items]}
        return {"NamedTuple": [[n, t.to_json()] for n, t in zip(self.names, self.items)]}

    @staticmethod
    def from_json(j):
        (k, v), = j.items()
        if k == "Scalar":
            return T.scalar(v)
        if k == "Array":
            return T.array([int(x) for x in v[0]], v[1])
        if k == "Vector":
            return T.vector(int(v[0]), T.from_json(v[1]))
        if k == "Tuple":
            return T.tuple([T.from_json(x) for x in v])
        if k == "NamedTuple":
            return T.ntuple([(x[0], T.from_json(x[1])) for x in v])
        raise ValueError("bad type json %r" % (j,))

    def children(self):
        if self.kind == "vector":
            return [self.elem] * self.n
        if self.kind in ("tuple", "ntuple"):
            return self.items
        return []

    def __eq__(self, o):
        return isinstance(o, T) and self.to_json() == o.to_json()

    def __hash__(self):
        return hash(repr(self))

    def __repr__(self):
        if self.kind == "scalar":
            return self.st
        if self.kind == "array":
            return "%s%s" % (self.st, list(self.shape))
        if self.kind == "vector":
            return "<%r>x%d" % (self.elem, self.n)
        if self.kind == "tuple":
            return "(%s)" % ", ".join(repr(t) for t in self.items)
        return "(%s)" % ", ".join("%s: %r" % (n, t) for n, t in zip(self.names, self.items))

    def num_elements(self):
        """number of scalar leaves"""
        if self.is_arr():
            n = 1
            for d in self.shape:
                n *= d
            return n
        return sum(c.num_elements() for c in self.children())
