"""C18 - sorting is a stable sort; permutation application and inversion agree.
Real code encoded / run: ops::integer_key_sort::SortByIntegerKey::instantiate (integer_to_bits, flip_msb),
mpc::mpc_radix_sort::RadixSortMPC, mpc::mpc_apply_permutation::ApplyPermutationMPC and the shuffle
protocols through compile_context; the plaintext Rust sort path is harnessed by Kani (kani/src/h_index.rs)."""
import itertools
import random

import z3

from . import drv, vals, solve, validate, mpc_common as mc, check_c01, speccheck, check_c08
from .cctypes import T, SCALARS, st_bits
from .common import Check, pool_map
from .interp import Interp, Unsupported, flat_elems
from .prog import single_graph, CB


def A(shape, st):
    return T.scalar(st) if shape == () else T.array(shape, st)


# ------------------------------------------------------------------ (1) SortByIntegerKey, all key types
def intsort_cases(tier, seed):
    cases = []
    k = 0
    for st in SCALARS:
        for n in ([2, 3] if tier == "quick" else [1, 2, 3, 4]):
            for payload in (["u8"] if tier == "quick" else ["u8", "i128", "bit"]):
                k += 1
                nt = T.ntuple([("a", A((n,), st)), ("b", A((n,), "i8")), ("c", A((n, 2), payload)), ("d", A((n,), "bit"))])
                prog = single_graph(lambda g: g.custom("SortByIntegerKey", [g.input(nt)], key="a"))
                cases.append(dict(id="intsort:%s:n%d:%s" % (st, n, payload), spec="intsort", key="a", prog=prog, in_types=[nt.to_json()],
                                  stages=[dict(op="instantiate"), dict(op="inline", inline=["simple", "depth_default"][(k + seed) % 2])], vseed=seed + k, kind="bits"))
    return cases


# ------------------------------------------------------------------ (2) apply / inverse permutation round trip (graph level)
@speccheck.spec("perm_roundtrip")
def spec_perm_roundtrip(case, ins, out):
    # precondition: the second operand is a valid permutation (anything else is a documented runtime error)
    pe = ins[1].flat()
    n = len(pe)
    pre = [z3.ULT(e, z3.BitVecVal(n, e.size())) for e in pe]
    if n > 1:
        pre.append(z3.Distinct(*pe))
    pairs = mc.eq_pairs(out, ins[0])
    if pairs is None:
        return pre, z3.BoolVal(True)
    g = solve.neq_goal(pairs)
    return pre, g if g is not None else z3.BoolVal(False)


def perm_cases(tier, seed):
    cases = []
    for st in (["u8", "i128", "bit"] if tier == "quick" else SCALARS):
        for n in ([3, 4] if tier == "quick" else [1, 2, 3, 4, 5]):
            for shape in [(n,), (n, 2)]:
                t, pt = A(shape, st), A((n,), "u64")
                for first_inverse in (False, True):
                    def build(g, first_inverse=first_inverse):
                        x, p = g.input(t), g.input(pt)
                        return g.apply_permutation(g.apply_permutation(x, p, first_inverse), p, not first_inverse)
                    cases.append(dict(id="permrt:%s:%s:%s" % (st, list(shape), "inv_first" if first_inverse else "fwd_first"), spec="perm_roundtrip",
                                      prog=single_graph(build), in_types=[t.to_json(), pt.to_json()], stages=[], vseed=seed, kind="bits"))
    return cases


# ------------------------------------------------------------------ (3) compiled protocols: solver where it finishes
def compiled_cases(tier, seed):
    cases = []
    k = 0
    # ApplyPermutation, data private / permutation public: solver-decided for all data, permutations and tapes
    for st in ["u8"]:
        for n in ([3] if tier == "quick" else [2, 3, 4]):
            for inv in (False, True):
                for owners in ([[0, "public"], ["shared", "public"]] if tier == "quick" else [[0, "public"], [1, "public"], [2, "public"], ["shared", "public"]]):
                    k += 1
                    its = [A((n,), st), A((n,), "u64")]
                    prog = single_graph(lambda g: g.apply_permutation(g.input(its[0]), g.input(its[1]), inv))
                    outs = [[0], [1, 2], []][(k + seed) % 3]
                    cases.append(dict(id="cperm:%s:n%d:inv%d:%s:%s" % (st, n, inv, owners, outs), template="cperm", st=st, prog=prog, in_types=[t.to_json() for t in its],
                                      owners=owners, outs=outs, mode=["simple", "depth_default"][k % 2], kind="bits", vseed=seed + k, n_evals=1))
    return cases


# ------------------------------------------------------------------ (4) compiled secure sort: differential on concrete tables (sampled)
def sort_tables(tier, seed):
    rng = random.Random(seed * 7 + 1)
    cfgs = []
    for n, b in ([(1, 1), (2, 1), (3, 1), (4, 2), (4, 3), (5, 3), (6, 5), (8, 3)] if tier == "quick" else
                 [(n, b) for n in (1, 2, 3, 4, 6, 8, 12) for b in (1, 2, 3, 4, 5, 7, 10)]):
        for payload_st, pshape in [("u8", ()), ("i64", (2,)), ("bit", ())]:
            cfgs.append((n, b, payload_st, pshape))
    return cfgs, rng


def sort_jobs(tier, seed):
    cfgs, rng = sort_tables(tier, seed)
    jobs, meta = [], []
    owners_pool = [[0], [1], [2], ["shared"]]
    for i, (n, b, pst, pshape) in enumerate(cfgs):
        nt = T.ntuple([("k", A((n, b), "bit")), ("v", A((n,) + pshape, pst)), ("idx", A((n,), "u8"))])
        prog = single_graph(lambda g: g.sort(g.input(nt), "k"))
        owners = owners_pool[(i + seed) % 4]
        outs = [[0], [1, 2], [2]][(i + seed) % 3]
        mode = ["simple", "depth_default", "depth_extreme"][(i + seed) % 3]
        stages, idx = mc.mpc_stages(owners, outs, mode)
        evals = []
        tables = []
        for rep in range(3 if tier == "quick" else 8):
            # few distinct keys => duplicates; idx column = input position (exposes instability)
            nkeys = max(1, min(1 << b, 1 + rep))
            keyvals = [rng.randrange(1 << b) for _ in range(nkeys)]
            rows = [rng.choice(keyvals) for _ in range(n)]
            kbits = []
            for r in rows:
                kbits += [(r >> (b - 1 - j)) & 1 for j in range(b)]  # element 0 most significant
            pv = vals.sample_value(A((n,) + pshape, pst), rng, "random")
            table = [kbits, pv, list(range(n))]
            tables.append(dict(rows=rows, table=table))
            plain = vals.enc(nt, table)
            cty, cdec = mc.concrete_compiled_inputs([nt], owners, [table], rng)
            evals.append(dict(ctx=idx["F"], inputs=[vals.enc(cty[0], cdec[0])]))
            evals.append(dict(ctx=0, inputs=[plain]))
        jobs.append(dict(id="csort:%d" % i, ctx=prog, stages=stages, dump=[], evals=evals))
        meta.append(dict(n=n, b=b, payload=pst, pshape=list(pshape), owners=owners, outs=outs, mode=mode, tables=tables, nt=nt.to_json()))
    return jobs, meta


def main():
    chk = Check("C18", "other")
    chk.module = "symg.check_c18"
    drv.build()
    # (1) + (2): spec checks
    cases = intsort_cases(chk.tier, chk.seed) + perm_cases(chk.tier, chk.seed)
    speccheck.run(chk, cases, timeout_s=120)
    # (3) compiled apply-permutation: C01-style equivalence
    ccases = compiled_cases(chk.tier, chk.seed)
    check_c01.run(chk, ccases, timeout_s=150)
    # (4) compiled sort: concrete differential (sampled)
    jobs, meta = sort_jobs(chk.tier, chk.seed)
    res = drv.run_jobs(jobs)
    for j, m, r in zip(jobs, meta, res):
        chk.count("compiled_sort_programs")
        cs = r.get("contexts") or []
        if not cs or not all(c.get("ok") for c in cs):
            chk.inconc("%s: compile failed: %s" % (j["id"], [c.get("error") for c in cs if not c.get("ok")][:1]))
            continue
        nt = T.from_json(m["nt"])
        evs = r["evals"]
        for rep in range(len(evs) // 2):
            evF, evS = evs[2 * rep], evs[2 * rep + 1]
            chk.count("compiled_sort_tables")
            # reference: stable sort computed here from the documented semantics
            tb = m["tables"][rep]
            order = sorted(range(m["n"]), key=lambda i: tb["rows"][i])  # Python's sort is stable
            if not evS.get("ok"):
                chk.inconc("%s: plaintext Sort failed: %s" % (j["id"], evS.get("error")))
                continue
            s = vals.dec(nt, evS["output"])
            if s[2] != order:
                chk.violation("plain_sort|n%d|b%d" % (m["n"], m["b"]), "%s table %s: plaintext Sort returns row order %s, stable sort is %s" % (j["id"], tb["rows"], s[2], order),
                              dict(kind="c18_plain", meta=m, table=tb))
                continue
            if not evF.get("ok"):
                chk.violation("compiled_sort_error|odd%d" % (m["b"] % 2), "%s: compiled sort failed at run time: %s" % (j["id"], evF.get("error")), dict(kind="c18_compiled", meta=m, table=tb))
                continue
            f = vals.dec(nt, evF["output"]) if m["outs"] else None
            if f != s:
                chk.violation("compiled_sort|odd_width=%d|duplicates=%d" % (m["b"] % 2, int(len(set(tb["rows"])) < m["n"])),
                              "%s n=%d b=%d owners=%s mode=%s keys=%s: compiled sort returns row order %s, plaintext (stable) order is %s" % (j["id"], m["n"], m["b"], m["owners"], m["mode"], tb["rows"], f and f[2], s[2]),
                              dict(kind="c18_compiled", meta={k: v for k, v in m.items() if k != "tables"}, table=tb, job=j))
            else:
                chk.count("compiled_sort_tables_agree")
    chk.functions = ["ops::integer_key_sort::SortByIntegerKey::instantiate", "ops::comparisons::flip_msb", "mpc::mpc_apply_permutation::ApplyPermutationMPC::instantiate (public permutation)",
                     "mpc::mpc_radix_sort::RadixSortMPC + shuffle/reveal/unshuffle protocols (concrete differential only)", "evaluators::simple_evaluator Sort / ApplyPermutation (as validated primitive semantics)"]
    chk.bounds = dict(integer_key_sort="all 11 key types, n in {2,3} (quick) / 1..4 (thorough), payload columns of rank 1-2",
                      permutation_roundtrip="ApplyPermutation(p) then ApplyPermutation(p, inverse) and the reverse, all valid permutations symbolic, n <= 4 (5 thorough)",
                      compiled_apply_permutation="private data, public permutation, n=3 (2..4 thorough), all data/permutations/tapes symbolic",
                      compiled_sort="SAMPLED: 24 (quick) table shapes x 3 concrete tables with duplicate keys, odd and even key widths 1..5, payloads u8 / i64[2] / bit, owners 0,1,2,shared, 3 inline modes")
    chk.outside = ["solver-level equivalence of the compiled radix sort (probed: unknown after 165 s already for 2 rows x 1 key bit; the shuffle protocols share permutations by composition, which defeats both ring normalisation and additive cuts): the compiled sort is compared with the plaintext sort on concrete tables only - sampled, stated as such",
                   "ApplyPermutation with a private permutation operand: see known finding", "tables above 8 rows (12 thorough)"]
    chk.assumptions = ["Sort / ApplyPermutation / InversePermutation primitive semantics = closed-form stable-sort / gather specification in symg/interp.py, validated against the real evaluator on every program's vectors",
                       "the plaintext Rust stable sort itself is harnessed with Kani (C18 Kani harness sorting_permutation_stable, run by this check's thorough tier)"]
    chk.finish(dict(explanation="(1) instantiated SortByIntegerKey vs numeric stable sort, (2) permutation round trips, (3) compiled ApplyPermutation vs source: SMT queries over all inputs; (4) compiled secure sort vs plaintext stable sort on concrete tables (sampled)",
                    evaluations=len(cases) + len(ccases) + len(jobs), distinct_nontrivial=len({c["id"].split(":")[1] for c in cases}) + len(jobs),
                    rule="spec programs: distinct key types / shapes; compiled sort: distinct (rows, key width, payload) shapes"))


if __name__ == "__main__":
    main()
