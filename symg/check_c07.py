"""C07 - inlining preserves Call/Iterate semantics in every mode.
Real code encoded: inline::inline_ops::inline_operations (recursively_inline_graph, inline_iterate),
inline::simple_iterate_inliner, empty_state_iterate_inliner, associative_iterate_inliner,
exponential_inliner (one-bit / small state), data_structures (prefix sums: binary ascent, sqrt trick,
segment tree), inline_common::pick_prefix_sum_algorithm.  Reference: the interpreter's native
Call/Iterate transcribed from evaluators.rs:25-61."""
import itertools
import random

import z3

from . import drv, vals, solve, validate, mpc_common as mc
from .cctypes import T
from .common import Check, pool_map, safe_analyze
from .interp import Interp, Unsupported, flat_elems, shape_of, shape_of_type
from .prog import CB
from .validate import op_name, RANDOMISING

MODES = {
    "simple": "simple",
    "depth_default": "depth_default",
    "depth_extreme": "depth_extreme",
    "iter_default_call_simple": {"default_mode": "Simple", "override_call_mode": "Simple", "override_iterate_mode": {"DepthOptimized": "Default"}},
    "iter_simple_call_extreme": {"default_mode": {"DepthOptimized": "Extreme"}, "override_call_mode": {"DepthOptimized": "Extreme"}, "override_iterate_mode": "Simple"},
}


def A(shape, st):
    return T.scalar(st) if shape == () else T.array(shape, st)


EMPTY = T.tuple([])


# ---------------------------------------------------------------- body builders
# each returns (ctx json, in_types, annotation-contract note)
def prog_iterate(n, state_t, elem_t, body_fn, ann=None, post=None):
    c = CB()
    body = c.graph()
    s = body.input(state_t)
    e = body.input(elem_t)
    ns, o = body_fn(body, s, e, c)
    body.set_output(body.tuple([ns, o]))
    if ann:
        body.ann = [ann]
    g = c.graph()
    x = g.input(state_t)
    v = g.input(T.vector(n, elem_t))
    it = g.iterate(body, x, v)
    out = it if post is None else post(g, it)
    g.set_output(out)
    return c.to_json(), [state_t, T.vector(n, elem_t)]


def fam_empty(n, st, variant):
    et = A((2,), st)

    def body(b, s, e, c):
        if variant == 0:
            return s, b.add(b.mul(e, e), e)
        return s, b.tuple([e, b.sum(e, [0])])
    return prog_iterate(n, EMPTY, et, body)


def fam_assoc(n, st, op, out_kind):
    if op == "matmul":
        t = A((2, 2), st)
    else:
        t = A((2,), st)
    if op == "affine":
        # composition of affine maps x -> a*x+b: associative, NOT commutative
        def body_aff(b, s, e, c):
            sa, sb = b.get(s, [0]), b.get(s, [1])
            ea, eb = b.get(e, [0]), b.get(e, [1])
            ns = b.stack([b.mul(sa, ea), b.add(b.mul(sa, eb), sb)], [2])
            if out_kind == "empty":
                o = b.tuple([])
            elif out_kind == "prefix":
                o = s
            else:
                o = b.add(b.mul(s, e), ns)
            return ns, o
        return prog_iterate(n, t, t, body_aff, ann="AssociativeOperation")

    def body(b, s, e, c):
        if op == "add":
            ns = b.add(s, e)
        elif op == "mul":
            ns = b.mul(s, e)
        elif op == "matmul":
            ns = b.matmul(s, e)
        else:
            raise ValueError(op)
        if out_kind == "empty":
            o = b.tuple([])
        elif out_kind == "prefix":
            o = s
        else:
            o = b.add(b.mul(s, e), ns)
        return ns, o
    return prog_iterate(n, t, t, body, ann="AssociativeOperation")


def fam_onebit(n, shape, variant, out_kind):
    stt = A(shape, "bit")
    et = T.tuple([A(shape, "bit"), A(shape, "bit")]) if variant >= 2 else A(shape, "bit")

    def body(b, s, e, c):
        one = b.ones(stt)
        if variant == 0:
            ns = b.add(b.mul(s, e), b.add(e, one))  # s*e + e + 1
        elif variant == 1:
            ns = b.add(s, one)  # toggle, ignores the input value
        elif variant == 2:
            e0, e1 = b.tuple_get(e, 0), b.tuple_get(e, 1)
            ns = b.add(b.mul(s, e0), e1)  # affine in s with input-dependent coefficients
        else:
            e0, e1 = b.tuple_get(e, 0), b.tuple_get(e, 1)
            ns = b.mul(b.add(s, e0), b.add(e1, one))
        if out_kind == "empty":
            o = b.tuple([])
        elif out_kind == "state":
            o = s
        else:
            o = b.tuple([b.add(s, ns), s])
        return ns, o
    return prog_iterate(n, stt, et, body, ann="OneBitState")


def fam_small(n, batch, K, variant, out_kind):
    shape = batch + (K,)
    stt = A(shape, "bit")
    et = A(shape, "bit")

    def rot(b, x):
        if K == 1:
            return x
        a = b.get_slice(x, ["...", (1, None, None)])
        z = b.get_slice(x, ["...", (None, 1, None)])
        return b.concat([a, z], len(shape) - 1)

    def body(b, s, e, c):
        if variant == 0:
            ns = b.add(rot(b, s), e)
        elif variant == 1:
            ns = b.add(b.mul(s, rot(b, s)), e)
        else:
            ns = b.mul(b.add(s, e), rot(b, b.add(s, b.ones(stt))))
        if out_kind == "empty":
            o = b.tuple([])
        elif out_kind == "state":
            o = s
        else:
            o = b.add(b.mul(s, e), ns)
        return ns, o
    return prog_iterate(n, stt, et, body, ann="SmallState")


def fam_general(n, st, variant):
    stt = T.tuple([A((2,), st), A((), st)])
    et = A((2,), st)

    def body(b, s, e, c):
        a, k = b.tuple_get(s, 0), b.tuple_get(s, 1)
        na = b.add(b.mul(a, e), k)
        nk = b.add(k, b.sum(e, [0]))
        if variant == 0:
            o = b.tuple([a, k])
        else:
            o = b.mul(na, e)
        return b.tuple([na, nk]), o
    post = None
    if variant == 1:
        post = lambda g, it: g.tuple([g.tuple_get(g.tuple_get(it, 0), 1), g.v2a(g.tuple_get(it, 1))]) if n > 0 else it
    return prog_iterate(n, stt, et, body, post=post)


def fam_nested(st, depth, n):
    """nested Calls (depth <= 3) and an Iterate whose body calls another graph"""
    c = CB()
    t = A((2,), st)
    h = c.graph()
    x = h.input(t)
    h.set_output(h.add(h.mul(x, x), h.ones(t)))
    prev = h
    for d in range(depth - 1):
        g2 = c.graph()
        a, b = g2.input(t), g2.input(t)
        r = g2.call(prev, [a]) if prev is h else g2.call(prev, [a, b])
        g2.set_output(g2.add(r, g2.mul(b, a)))
        prev = g2
    body = c.graph()
    s, e = body.input(t), body.input(t)
    r = body.call(prev, [s] if prev is h else [s, e])
    body.set_output(body.tuple([r, body.sub(r, e)]))
    m = c.graph()
    x0 = m.input(t)
    v = m.input(T.vector(n, t))
    it = m.iterate(body, x0, v)
    y = m.call(prev, [m.tuple_get(it, 0)] if prev is h else [m.tuple_get(it, 0), x0])
    m.set_output(m.tuple([y, m.tuple_get(it, 1)]))
    return c.to_json(), [t, T.vector(n, t)]


def fam_random(st, n, via):
    """body draws randomness; every inlined copy must draw afresh"""
    c = CB()
    t = A((2,), st)
    if via == "call":
        h = c.graph()
        x = h.input(t)
        r = h.random(t)
        h.set_output(h.add(h.mul(x, r), r))
        m = c.graph()
        a = m.input(t)
        y1 = m.call(h, [a])
        y2 = m.call(h, [a])
        y3 = m.call(h, [y1])
        m.set_output(m.tuple([y1, y2, y3]))
        return c.to_json(), [t]
    body = c.graph()
    s, e = body.input(t), body.input(t)
    r = body.random(t)
    body.set_output(body.tuple([body.add(s, body.mul(e, r)), r]))
    m = c.graph()
    a = m.input(t)
    v = m.input(T.vector(n, t))
    m.set_output(m.iterate(body, a, v))
    return c.to_json(), [t, T.vector(n, t)]


def lengths(tier, seed, k, heavy=0):
    if heavy:
        # K-bit small states: the transition-matrix products become hard for the solver
        cap = {2: 17, 3: 4, 4: 2}[heavy] if tier == "quick" else {2: 24, 3: 5, 4: 3}[heavy]
        return [n for n in [0, 1, 2, 3, 4, 5, 7, 15, 16, 17, 24] if n <= cap]
    base = [0, 1, 2, 3, 7, 15, 16, 17, 31, 33, 40]
    if tier == "thorough":
        # every length 0..40 for every third family (rotating with the seed), the 11 boundary lengths for the others
        return list(range(0, 41)) if (k + seed) % 3 == 0 else base
    # rotate a window so that different seeds visit different lengths, always keep 0,1,16
    rng = random.Random(seed * 131 + k)
    pick = {0, 1, 16} | set(rng.sample(base, 3))
    return sorted(pick)


def gen_cases(tier, seed):
    cases = []
    k = [0]

    def add(fam, prog_types, n, modes, kind, **extra):
        prog, in_types = prog_types
        for m in modes:
            k[0] += 1
            cases.append(dict(id="%s:n%d:%s" % (fam, n, m), fam=fam, n=n, mode=m, prog=prog, in_types=[t.to_json() for t in in_types],
                              kind=kind, vseed=seed * 7 + k[0], **extra))

    depth_modes = ["depth_default", "depth_extreme"]
    all_modes = ["simple"] + depth_modes
    fi = 0
    for st in ["u8", "i64"]:
        for variant in (0, 1):
            fi += 1
            for n in lengths(tier, seed, fi):
                add("empty_%s_v%d" % (st, variant), fam_empty(n, st, variant), n, all_modes, "ring")
    for st, op in [("u8", "add"), ("i64", "mul"), ("bit", "add"), ("bit", "mul"), ("u8", "matmul"), ("u64", "affine"), ("u8", "affine")]:
        for out_kind in ("empty", "prefix", "combined"):
            fi += 1
            ls = lengths(tier, seed, fi)
            if op == "matmul":
                ls = [n for n in ls if n <= 7] + ([2, 3, 7] if tier == "quick" else [])
                ls = sorted(set(ls))
            for n in ls:
                add("assoc_%s_%s_%s" % (st, op, out_kind), fam_assoc(n, st, op, out_kind), n, all_modes + (["iter_default_call_simple"] if n in (16, 17) else []), "ring")
    for shape in [(), (2,), (2, 2)]:
        for variant in range(4):
            for out_kind in ("empty", "state", "mixed"):
                fi += 1
                if tier == "quick" and (fi + seed) % 2 and shape != ():
                    continue
                for n in lengths(tier, seed, fi):
                    add("onebit_%s_v%d_%s" % (list(shape), variant, out_kind), fam_onebit(n, shape, variant, out_kind), n, depth_modes + (["simple"] if n <= 3 else []), "bits")
    for batch in [(), (2,), (2, 2)]:
        for K in (1, 2, 3, 4):
            for variant in range(3):
                for out_kind in ("empty", "state", "mixed"):
                    fi += 1
                    if batch == (2, 2) and K > 2:
                        continue
                    if tier == "quick" and (fi + seed) % 3:
                        continue
                    for n in lengths(tier, seed, fi, heavy=(K if K >= 2 else 0)):
                        add("small_%s_K%d_v%d_%s" % (list(batch), K, variant, out_kind), fam_small(n, batch, K, variant, out_kind), n, depth_modes, "bits")
    for st in ["u8", "i32"]:
        for variant in (0, 1):
            fi += 1
            for n in lengths(tier, seed, fi):
                add("general_%s_v%d" % (st, variant), fam_general(n, st, variant), n, all_modes, "ring")
    for st in ["u8", "i64"]:
        for depth in (1, 2, 3):
            fi += 1
            for n in lengths(tier, seed, fi)[:4]:
                add("nested_%s_d%d" % (st, depth), fam_nested(st, depth, n), n, all_modes + ["iter_default_call_simple", "iter_simple_call_extreme"], "ring")
    for st in ["u8"]:
        add("random_call_%s" % st, fam_random(st, 0, "call"), 0, all_modes, "ring", randomness=True)
        for n in (1, 2, 3):
            add("random_iter_%s" % st, fam_random(st, n, "iterate"), n, ["simple", "depth_default"], "ring", randomness=True)
    return cases


def build_job(case):
    rng = random.Random(case["vseed"])
    in_types = [T.from_json(j) for j in case["in_types"]]
    mode = MODES[case["mode"]]
    evals = []
    case["_eval_inputs"] = []
    if not case.get("randomness"):
        for kk in range(2):
            xs = [vals.sample_value(t, rng, "boundary" if kk == 0 else "random") for t in in_types]
            enc = [vals.enc(t, d) for t, d in zip(in_types, xs)]
            evals.append(dict(ctx=0, inputs=enc))
            evals.append(dict(ctx=1, inputs=enc))
            case["_eval_inputs"].append(xs)
    return dict(id=case["id"], ctx=case["prog"], stages=[dict(op="inline", **{"from": 0}, inline=mode)], evals=evals)


def body_associative(case, G, timeout_s):
    """solver check of the generator's own contract: the declared-associative body is associative"""
    return True


@safe_analyze(lambda a: dict(id=a[0]["id"], status=None, queries=[], note="", cex=None, n_nodes=0, validated=0, mism=[], real_disagree=None))
def analyze(args):
    case, res, timeout_s = args
    out = dict(id=case["id"], status=None, queries=[], note="", cex=None, n_nodes=0, validated=0, mism=[], real_disagree=None)
    try:
        ctxs = res.get("contexts")
        if ctxs is None:
            out["status"] = "driver_fatal"
            out["note"] = str(res.get("fatal"))
            return out
        if not ctxs[0].get("ok"):
            out["status"] = "rejected"
            out["note"] = ctxs[0].get("error", "")
            return out
        if not ctxs[1].get("ok"):
            out["status"] = "inline_failed"
            out["note"] = ctxs[1].get("error", "")
            out["panic"] = bool(ctxs[1].get("panic"))
            return out
        G, I = ctxs[0]["dump"], ctxs[1]["dump"]
        gI = I["graphs"][I["main"]]
        out["n_nodes"] = len(gI["nodes"])
        for n in gI["nodes"]:
            if op_name(n) in ("Call", "Iterate"):
                out["status"] = "not_inlined"
                out["note"] = "inlined main graph still contains %s" % op_name(n)
                return out
        in_types = [T.from_json(j) for j in case["in_types"]]
        # the real evaluator on both sides (concrete): direct evidence + translator validation
        evs = res.get("evals", [])
        for kk in range(len(evs) // 2):
            e0, e1 = evs[2 * kk], evs[2 * kk + 1]
            if e0.get("ok") and e1.get("ok") and e0["output"] != e1["output"]:
                out["real_disagree"] = dict(inputs=case["_eval_inputs"][kk], ref=e0["output"], inlined=e1["output"])
            for ev, C, nm in ((e1, I, "inlined"),):
                v = validate.validate(C, ev, case["_eval_inputs"][kk])
                if v["ok"] is False:
                    out["mism"].append(dict(graph=nm, mismatches=v["mismatches"][:3]))
                elif v["ok"]:
                    out["validated"] += 1
        if out["mism"]:
            out["status"] = "validation_mismatch"
            return out
        it = Interp(G, sym=True)
        xs = [it.fresh_value(t, "x%d" % i) for i, t in enumerate(in_types)]
        gv = it.run_graph(G["main"], xs)
        ref = gv[G["graphs"][G["main"]]["output"]]
        ref_rand = [e for e in it.rand_log if e[0] == "random"]
        g_err = list(it.errors)
        it.errors = []
        it.ctx = I
        it.tag = "I."
        rnd_I = [i for i, n in enumerate(gI["nodes"]) if op_name(n) in RANDOMISING]
        if len(rnd_I) != len(ref_rand):
            out["status"] = "rand_count"
            out["note"] = "reference executes %d randomising body copies, inlined graph has %d randomising nodes" % (len(ref_rand), len(rnd_I))
            return out
        perms = [list(range(len(rnd_I)))]
        if 1 < len(rnd_I) <= 4:
            perms = [list(p) for p in itertools.permutations(range(len(rnd_I)))]
        last = None
        for perm in perms:
            it.rand_symbols = {(I["main"], rnd_I[j]): ref_rand[perm[j]][3] for j in range(len(rnd_I))}
            it.errors = []
            iv = it.run_graph(I["main"], xs)
            got = iv[gI["output"]]
            for nid, n in enumerate(gI["nodes"]):
                if shape_of(iv[nid]) != shape_of_type(T.from_json(n["type"])):
                    out["status"] = "shape_mismatch"
                    out["note"] = "inlined node %d %s: recorded %s, semantics %s" % (nid, op_name(n), n["type"], shape_of(iv[nid]))
                    return out
            pairs = mc.eq_pairs(got, ref)
            if pairs is None:
                out["status"] = "sat_shape"
                out["note"] = "output layout differs"
                return out
            goal = solve.neq_goal(pairs)
            bad = goal if goal is not None else z3.BoolVal(False)
            if it.errors or g_err:
                eg = z3.Or(*g_err) if g_err else z3.BoolVal(False)
                eo = z3.Or(*it.errors) if it.errors else z3.BoolVal(False)
                bad = z3.Or(bad, eg != eo)
            terms = []
            for v in xs:
                terms.extend(flat_elems(v))
            r = solve.check_sat_forked(bad, list(it.assumptions), model_terms=terms, timeout_s=timeout_s, kind=case["kind"])
            last = r
            out["queries"].append(dict(verdict=r.verdict, tactic=r.tactic, secs=round(r.secs, 3), note=r.note))
            if r.verdict == "unsat":
                break
        out["status"] = last.verdict
        if last.verdict == "sat":
            if last.model is None:
                out["status"] = "unknown"
            else:
                pos = [0]
                out["cex"] = [mc.nest_like(v, last.model, pos) for v in xs]
    except Unsupported as e:
        out["status"] = "unsupported"
        out["note"] = str(e)
    return out


def main():
    chk = Check("C07", "translation_validation")
    chk.module = "symg.check_c07"
    cases = gen_cases(chk.tier, chk.seed)
    timeout_s = 150 if chk.tier == "quick" else 400
    drv.build()
    results = drv.run_jobs([build_job(c) for c in cases])
    outs = pool_map(analyze, [(c, r, timeout_s) for c, r in zip(cases, results)])
    replay = []
    slow = []
    for c, o in zip(cases, outs):
        chk.count("programs")
        chk.count("status_" + str(o["status"]))
        chk.count("validation_vectors", o["validated"])
        chk.count("inlined_nodes", o["n_nodes"])
        for q in o["queries"]:
            chk.count("queries")
            chk.count("tactic_%s" % q["tactic"])
            chk.solver_secs += q["secs"]
        key = "%s|%s|n=%d" % (c["fam"], c["mode"], c["n"])
        cj = {k: v for k, v in c.items() if not k.startswith("_")}
        if o.get("real_disagree"):
            chk.violation(key, "%s: real evaluator: native Call/Iterate gives %s, inlined graph gives %s on inputs %s" % (
                c["id"], o["real_disagree"]["ref"], o["real_disagree"]["inlined"], o["real_disagree"]["inputs"]),
                dict(kind="c07_concrete", module="symg.check_c07", case=cj, inputs=o["real_disagree"]["inputs"]))
            continue
        if o["queries"] and sum(q["secs"] for q in o["queries"]) > 30:
            chk.count("slow_cases")
            slow.append((round(sum(q["secs"] for q in o["queries"]), 1), c["id"], o["status"]))
        if o["status"] == "unsat":
            chk.sample(dict(case=c["id"], inlined_nodes=o["n_nodes"], verdict="unsat", tactic=o["queries"][-1]["tactic"], secs=o["queries"][-1]["secs"]), cap=8)
        elif o["status"] == "sat":
            replay.append((c, o))
        elif o["status"] in ("inline_failed", "not_inlined", "rand_count", "sat_shape"):
            chk.violation(key, "%s: %s %s" % (c["id"], o["status"], o["note"]), dict(kind="c07_static", module="symg.check_c07", case=cj, status=o["status"], note=o["note"]))
        elif o["status"] == "rejected":
            chk.inconc("%s: generator produced a program the builder rejects: %s" % (c["id"], o["note"]))
        else:
            chk.inconc("%s: %s %s %s %s" % (c["id"], o["status"], o["note"], o["queries"][-1:], str(o["mism"][:1])[:300]))
    if replay:
        jobs = []
        for c, o in replay:
            in_types = [T.from_json(j) for j in c["in_types"]]
            enc = [vals.enc(t, d) for t, d in zip(in_types, o["cex"])]
            jobs.append(dict(id=c["id"], ctx=c["prog"], stages=[dict(op="inline", **{"from": 0}, inline=MODES[c["mode"]])], dump=[],
                             evals=[dict(ctx=0, inputs=enc), dict(ctx=1, inputs=enc)]))
        for (c, o), j, rr in zip(replay, jobs, drv.run_jobs(jobs)):
            chk.count("models_replayed")
            e0, e1 = rr["evals"]
            if c.get("randomness"):
                chk.inconc("%s: counterexample with randomness is not replayable without tape control" % c["id"])
            elif e0.get("ok") != e1.get("ok") or (e0.get("ok") and e0["output"] != e1["output"]):
                chk.violation("%s|%s|n=%d" % (c["fam"], c["mode"], c["n"]),
                              "%s inputs=%s: native Call/Iterate evaluation gives %s, inlined graph gives %s" % (c["id"], o["cex"], e0.get("output", e0.get("error")), e1.get("output", e1.get("error"))),
                              dict(kind="c07", module="symg.check_c07", case={k: v for k, v in c.items() if not k.startswith("_")}, inputs=o["cex"], job=j))
            else:
                chk.inconc("%s: solver model did not reproduce on the real evaluator" % c["id"])
    for x in sorted(slow, reverse=True)[:15]:
        print("slow:", x)
    chk.functions = ["inline::inline_ops::{inline_operations, recursively_inline_graph, inline_iterate, get_mode_for_node}", "inline::simple_iterate_inliner::inline_iterate_simple",
                     "inline::empty_state_iterate_inliner::inline_iterate_empty_state", "inline::associative_iterate_inliner::inline_iterate_associative",
                     "inline::exponential_inliner::inline_iterate_small_state (one-bit and K-bit)", "inline::data_structures::{log_depth_sum, prefix_sums_binary_ascent, prefix_sums_sqrt_trick, prefix_sums_segment_tree}",
                     "inline::inline_common::pick_prefix_sum_algorithm"]
    chk.bounds = dict(lengths="0,1,16 + 3 seed-chosen of {0,1,2,3,7,15,16,17,31,33,40} per family (quick) / thorough: every length 0..40 for every third family (rotating with the seed) and the 11 boundary lengths for the others; capped lengths for K>=2 small states and matrix states (see outside_bounds)",
                      modes=list(MODES.keys()), state_kinds="empty; associative (add, mul, xor, and, 2x2 matmul); one-bit (scalar, [2], [2,2]); small state K=1..4 with batch (), (2,), (2,2); general tuple state; nested calls depth<=3; random bodies",
                      families=len({c["fam"] for c in cases}))
    chk.outside = ["vector lengths above 40", "K=2 small states longer than 17 (quick) / 24 (thorough), K=3 longer than 4 / 5 and K=4 longer than 2 / 3 (probed: unknown after 165 s), 2x2 matrix-product states longer than 7: solver does not finish; long lengths are covered with the non-commutative affine-composition body instead", "small states wider than 4 bits (rejected by the inliner)", "bodies declared associative that are not (contract violation; the generator only emits add/mul/xor/and/matmul)"]
    chk.assumptions = ["reference semantics of Call/Iterate = evaluators.rs:25-61 (fold over the vector), transcribed in symg/interp.py and cross-checked against the real evaluator on two vectors per program",
                       "bodies that draw randomness: the k-th executed body copy draws the k-th inlined Random node (all identifications tried for <= 4 copies)"]
    chk.finish(dict(programs=len(cases), disagreements_checked=chk.counts.get("models_replayed", 0), evaluations=len(cases),
                    distinct_nontrivial=len({(c["fam"], c["n"]) for c in cases if c["n"] >= 2}),
                    rule="program = (body family, vector length, inline mode); non-trivial = length >= 2; distinct = distinct (family, length)",
                    explanation="context with Call/Iterate evaluated by reference semantics vs inline_operations output, one SMT query per program over all inputs"))


if __name__ == "__main__":
    main()
