"""./check --replay <file>: re-run a recorded violation against the real code of the current
/repo tree (driver rebuilt first) and re-judge it natively."""
import json
import sys

from . import drv
from .cctypes import T


def main(path):
    rec = json.load(open(path))
    rp = rec["replay"]
    kind = rp.get("kind")
    print("property=%s key=%s" % (rec["property"], rec["key"]))
    print(rec["text"][:2000])
    if kind == "kani":
        print("Kani harness %s; failed checks: %s" % (rp["harness"], rp["failed"]))
        print(rp.get("playback", "")[-4000:])
        print("to re-run: cd kani && cargo kani -Z stubbing -Z concrete-playback --concrete-playback=print --harness %s" % rp["harness"])
        return 1
    job = rp.get("job")
    if not job:
        print(json.dumps(rp, indent=1)[:4000])
        return 1
    drv.build()
    rr = drv.run_job(job)
    confirmed, why = None, ""
    try:
        if kind == "speccheck":
            from . import speccheck, check_c16, check_c17, check_c08, check_c18  # noqa: register specs
            case = rp["case"]
            ev = rr["evals"][0]
            ctx = rr["contexts"][-1]["dump"]
            g = ctx["graphs"][ctx["main"]]
            ot = T.from_json(g["nodes"][g["output"]]["type"])
            if not ev.get("ok"):
                confirmed, why = True, "real evaluator failed: %s" % ev.get("error")
            else:
                confirmed, why = speccheck.concrete_spec_violated(case, rp["inputs"], ev["output"], ot)
        elif kind == "c01":
            from . import check_c01
            confirmed, why = check_c01.judge_replay(rp["case"], rr)
        elif kind == "c02":
            from . import check_c02
            confirmed, why = check_c02.judge_replay(rp["case"], rp["cex"], rr)
        elif kind == "c05":
            from . import check_c05
            confirmed, why = check_c05.judge(rp["case"], rp["cex"], rr)
        elif kind in ("c06", "c07"):
            evs = rr["evals"]
            a, b = evs[0], evs[1]
            confirmed = a.get("ok") != b.get("ok") or (a.get("ok") and a["output"] != b["output"])
            why = "first graph -> %s ; second graph -> %s" % (a.get("output", a.get("error")), b.get("output", b.get("error")))
    except Exception as e:  # noqa
        why = "replay judge failed: %r" % (e,)
    if confirmed is None:
        print("driver result:", json.dumps({k: v for k, v in rr.items() if k != "contexts"})[:3000])
        return 1
    print("REPRODUCED" if confirmed else "NOT REPRODUCED", "-", why)
    return 1 if confirmed else 0


if __name__ == "__main__":
    sys.exit(main(sys.argv[1]))
