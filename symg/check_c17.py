"""C17 - bit-level arithmetic helpers are exact.
Real code encoded: ops::adder::{BinaryAdd,BinaryAddTransposed}::instantiate (calculate_carry_bits),
ops::multiplexer::Mux, ops::clip::Clip2K, ops::long_division::LongDivision (+ Or, Not, Equal),
custom_ops::run_instantiation_pass, inline::inline_ops::inline_operations."""
import numpy as np
import z3

from . import speccheck
from .cctypes import T, st_bits
from .common import Check
from .check_c16 import ints_of
from .prog import single_graph


def flat(a):
    return list(a.reshape(-1)) if a.shape != () else [a[()]]


def any_of(bad):
    bad = [b for b in bad]
    if not bad:
        return z3.BoolVal(False)
    return z3.Or(*bad) if len(bad) > 1 else bad[0]


@speccheck.spec("adder")
def spec_adder(case, ins, out):
    a, b = ints_of(ins[0]), ints_of(ins[1])
    A, B = np.broadcast_arrays(a, b)
    w = ins[0].shape[-1]
    if case["overflow"]:
        s, c = out[0], out[1]
    else:
        s, c = out, None
    if tuple(s.shape) != tuple(A.shape) + (w,):
        return [], z3.BoolVal(True)
    got = flat(ints_of(s))
    bad = []
    for i, (x, y) in enumerate(zip(flat(A), flat(B))):
        bad.append(got[i] != x + y)
    if c is not None:
        cf = c.flat()
        if len(cf) != len(got):
            return [], z3.BoolVal(True)
        for i, (x, y) in enumerate(zip(flat(A), flat(B))):
            full = z3.ZeroExt(1, x) + z3.ZeroExt(1, y)
            bad.append(cf[i] != z3.Extract(w, w, full))
    return [], any_of(bad)


@speccheck.spec("mux")
def spec_mux(case, ins, out):
    a, b, c = ins
    A, B, C = np.broadcast_arrays(a.a, b.a, c.a)
    if tuple(out.shape) != tuple(A.shape):
        return [], z3.BoolVal(True)
    bad = [o != z3.If(x == 1, y, z) for o, x, y, z in zip(out.flat(), flat(A), flat(B), flat(C))]
    return [], any_of(bad)


@speccheck.spec("clip")
def spec_clip(case, ins, out):
    x = ints_of(ins[0])
    w = ins[0].shape[-1]
    k = case["k"]
    if tuple(out.shape) != tuple(ins[0].shape):
        return [], z3.BoolVal(True)
    got = flat(ints_of(out))
    bad = []
    for g, e in zip(got, flat(x)):
        lim = z3.BitVecVal(1 << k, w)
        exp = z3.If(e < 0, z3.BitVecVal(0, w), z3.If(e >= lim, lim, e))
        bad.append(g != exp)
    return [], any_of(bad)


@speccheck.spec("longdiv")
def spec_longdiv(case, ins, out):
    a, d = ints_of(ins[0]), ints_of(ins[1])
    A, D = np.broadcast_arrays(a, d)
    w = ins[0].shape[-1]
    q, r = out[0], out[1]
    qf, rf = flat(ints_of(q)), flat(ints_of(r))
    if len(qf) != len(flat(A)) or len(rf) != len(qf):
        return [], z3.BoolVal(True)
    bad = []
    signed = case["signed"]
    for x, y, qq, rr in zip(flat(A), flat(D), qf, rf):
        if signed:
            ext = lambda t: z3.SignExt(w, t)
            zero = z3.BitVecVal(0, w)
            rng = z3.And(z3.Implies(y > 0, z3.And(rr >= 0, rr < y)), z3.Implies(y < 0, z3.And(rr <= 0, rr > y)))
            overflow = z3.And(x == z3.BitVecVal(1 << (w - 1), w), y == z3.BitVecVal((1 << w) - 1, w))
            exact = z3.Or(overflow, ext(qq) * ext(y) + ext(rr) == ext(x))
            good = z3.And(qq * y + rr == x, rng, exact)
        else:
            ext = lambda t: z3.ZeroExt(w, t)
            good = z3.And(ext(qq) * ext(y) + ext(rr) == ext(x), z3.ULT(rr, y))
        bad.append(z3.And(y != 0, z3.Not(good)))
    return [], any_of(bad)


def mk(cases, cid, specname, prog, in_types, mode, kidx, seed, **extra):
    c = dict(id=cid, spec=specname, prog=prog, in_types=[t.to_json() for t in in_types],
             stages=[dict(op="instantiate"), dict(op="inline", inline=mode)], vseed=kidx + seed)
    c.update(extra)
    cases.append(c)


def gen_cases(tier, seed):
    cases = []
    modes = ["simple", "depth_default"]
    k = 0
    shapes = [((), ()), ((2,), ()), ((2, 1), (3,))]
    # --- BinaryAdd
    for w in [1, 2, 4, 8, 16, 32, 64, 128]:
        for ov in (False, True):
            for (sa, sb) in (shapes if w <= 16 or tier == "thorough" else [shapes[(k + seed) % 3]]):
                for m in modes:
                    k += 1
                    ta, tb = T.array(sa + (w,), "bit"), T.array(sb + (w,), "bit")
                    prog = single_graph(lambda g: g.custom("BinaryAdd", [g.input(ta), g.input(tb)], overflow_bit=ov))
                    mk(cases, "BinaryAdd_ov%d_w%d_%s_%s_%s" % (ov, w, list(sa), list(sb), m), "adder", prog, [ta, tb], m, k, seed, overflow=ov, fam="BinaryAdd")
    # --- Mux
    for st in ["bit", "u8", "i32", "u64", "i128"]:
        for (sa, sb, sc) in [((), (), ()), ((2, 3), (1, 3), (2, 1)), ((2,), (), (2,)), ((), (2, 2), (2,))]:
            k += 1
            m = modes[(k + seed) % 2]
            mk_t = lambda s, st_: T.array(s, st_) if s != () else T.scalar(st_)
            ta, tb, tc = mk_t(sa, "bit"), mk_t(sb, st), mk_t(sc, st)
            prog = single_graph(lambda g: g.custom("Mux", [g.input(ta), g.input(tb), g.input(tc)]))
            mk(cases, "Mux_%s_%s_%s_%s_%s" % (st, list(sa), list(sb), list(sc), m), "mux", prog, [ta, tb, tc], m, k, seed, fam="Mux")
    # --- Clip2K
    for w in [8, 16, 32, 64]:
        ks = list(range(0, w - 1))
        if tier == "quick" and w > 16:
            ks = sorted(set([0, 1, 2, w // 2, w - 3, w - 2, (seed * 7 + 5) % (w - 1)]))
        for kk in ks:
            for sa in ([(), (2,)] if w <= 16 else [()]):
                k += 1
                m = modes[(k + seed) % 2]
                ta = T.array(sa + (w,), "bit")
                prog = single_graph(lambda g: g.custom("Clip2K", [g.input(ta)], k=kk))
                mk(cases, "Clip2K_k%d_w%d_%s_%s" % (kk, w, list(sa), m), "clip", prog, [ta], m, k, seed, k=kk, fam="Clip2K")
    # --- LongDivision
    ldw = [4, 8] if tier == "quick" else [2, 4, 8]
    for w in ldw:
        for signed in (False, True):
            for (sa, sb) in [((1,), (1,)), ((2,), (1,))]:
                for m in modes:
                    k += 1
                    ta, tb = T.array(sa + (w,), "bit"), T.array(sb + (w,), "bit")
                    prog = single_graph(lambda g: g.custom("LongDivision", [g.input(ta), g.input(tb)], signed=signed))
                    mk(cases, "LongDivision_%s_w%d_%s_%s_%s" % ("s" if signed else "u", w, list(sa), list(sb), m), "longdiv", prog, [ta, tb], m, k, seed,
                       signed=signed, fam="LongDivision")
    # vacuity witnesses
    wit = []
    for c in cases:
        if c["id"].startswith("Clip2K_k2_w8_[]"):
            x = dict(c); x["id"] = "WITNESS_" + c["id"]; x["k"] = 3; x["witness"] = True; wit.append(x)
        if c["id"].startswith("BinaryAdd_ov0_w8_[]_[]_simple"):
            x = dict(c); x["id"] = "WITNESS_" + c["id"]; x["spec"] = "adder_wrong"; x["witness"] = True; wit.append(x)
        if c["id"].startswith("LongDivision_s_w8_[1]_[1]_simple"):
            x = dict(c); x["id"] = "WITNESS_" + c["id"]; x["signed"] = False; x["witness"] = True; wit.append(x)
    return cases + wit


@speccheck.spec("adder_wrong")
def spec_adder_wrong(case, ins, out):
    a, b = ints_of(ins[0]), ints_of(ins[1])
    got = flat(ints_of(out))
    return [], any_of([g != x - y for g, x, y in zip(got, flat(a), flat(b))])


def main():
    chk = Check("C17", "other")
    chk.module = "symg.check_c17"
    cases = gen_cases(chk.tier, chk.seed)
    chk.functions = ["ops::adder::{BinaryAdd,BinaryAddTransposed}::instantiate", "ops::adder::calculate_carry_bits",
                     "ops::multiplexer::Mux::instantiate", "ops::clip::Clip2K::instantiate", "ops::long_division::LongDivision::instantiate",
                     "custom_ops::{Or,Not,run_instantiation_pass}", "ops::comparisons::Equal::instantiate", "inline::inline_ops::inline_operations (incl. associative Iterate inlining for Clip2K)"]
    chk.bounds = dict(adder_widths=[1, 2, 4, 8, 16, 32, 64, 128], mux_types=["bit", "u8", "i32", "u64", "i128"],
                      clip="w in {8,16}: all k; w in {32,64}: boundary k (quick) / all k (thorough)",
                      longdiv_widths=[4, 8] if chk.tier == "quick" else [2, 4, 8], solver_timeout_s=300)
    chk.outside = ["LongDivision at 16 bits and wider (probed: the restoring-division circuit against the 2w-bit multiplier lemma, and against bvudiv/bvurem, is unknown after 1000 s with z3 qfbv, z3 aig+sat and cvc5)",
                   "LongDivision with dividend = minimum and divisor = -1: only q*d+r = a (mod 2^w) and the remainder range are required, the quotient is not representable",
                   "adder widths that are not powers of two (documented as unsupported)"]
    chk.assumptions = ["operation semantics of primitive ops as documented (translator validation on every program)",
                       "long division specified by the division lemma q*d+r=a (2w-bit arithmetic), |r|<|d|, sign(r)=sign(d) or r=0, for d != 0"]
    speccheck.run(chk, cases, timeout_s=300)
    fams = {}
    for c in cases:
        fams[c.get("fam", "?")] = fams.get(c.get("fam", "?"), 0) + 1
    chk.finish(dict(
        explanation="Each case instantiates one helper (BinaryAdd, Mux, Clip2K, LongDivision) with the real instantiate code, inlines it with the real inliner and "
                    "symbolically executes the resulting circuit over all operand values; the solver is asked for operands violating the bit-vector specification "
                    "(bvadd + carry-out, ite, clamp, floored-division lemma). unsat = exact for every operand at that width/shape.",
        evaluations=len(cases), distinct_nontrivial=len({c["id"].rsplit("_", 1)[0] for c in cases}),
        rule="one case per (helper, parameter, width, shape pattern, inline mode); distinct = distinct ids ignoring inline mode",
        families=fams, programs=len(cases)))


if __name__ == "__main__":
    main()
