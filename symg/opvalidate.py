"""Supporting family for C09 / C10: one- and few-operation graphs over all scalar types and
shape patterns, evaluated by the real SimpleEvaluator on boundary vectors (always including
values >= 2^64 for the 128-bit types) and compared node by node with the independent
NumPy-style interpreter; every node value is passed through Value::check_type(node type) and
every evaluation runs under catch_unwind.  SAMPLED (concrete vectors), not solver-decided:
it is how the per-operation code inside evaluate_node - which Kani cannot reach - is tied to the
documented semantics, and where a deviation becomes a replayable C09/C10 violation."""
import random

from . import drv, vals, validate, gen
from .cctypes import T, SCALARS, st_bits
from .prog import single_graph, CB


def A(shape, st):
    return T.scalar(st) if shape == () else T.array(shape, st)


def op_templates():
    """name -> (input shapes, builder(g, xs, st)); scalar type filled per instantiation"""
    t = {}

    def reg(n, shapes, f, only=None):
        t[n] = (shapes, f, only)

    for nm, f in (("add", "add"), ("sub", "sub"), ("mul", "mul")):
        reg(nm + "_bcast", [(2, 1, 3), (2, 3)], lambda g, x, st, f=f: getattr(g, f)(x[0], x[1]))
        reg(nm + "_scalar", [(), (2, 2)], lambda g, x, st, f=f: getattr(g, f)(x[0], x[1]))
    reg("dot_11", [(3,), (3,)], lambda g, x, st: g.dot(x[0], x[1]))
    reg("dot_21", [(2, 3), (3,)], lambda g, x, st: g.dot(x[0], x[1]))
    reg("dot_23", [(2, 2), (2, 2, 3)], lambda g, x, st: g.dot(x[0], x[1]))
    reg("dot_13", [(2,), (3, 2, 2)], lambda g, x, st: g.dot(x[0], x[1]))
    reg("dot_34", [(2, 1, 2), (2, 1, 2, 2)], lambda g, x, st: g.dot(x[0], x[1]))
    reg("dot_scalar", [(), (2, 2)], lambda g, x, st: g.dot(x[0], x[1]))
    reg("matmul_22", [(2, 3), (3, 2)], lambda g, x, st: g.matmul(x[0], x[1]))
    reg("matmul_12", [(3,), (3, 2)], lambda g, x, st: g.matmul(x[0], x[1]))
    reg("matmul_21", [(2, 3), (3,)], lambda g, x, st: g.matmul(x[0], x[1]))
    reg("matmul_batch", [(2, 1, 2, 3), (3, 3, 2)], lambda g, x, st: g.matmul(x[0], x[1]))
    reg("matmul_batch1", [(1, 2, 2), (2, 2, 2)], lambda g, x, st: g.matmul(x[0], x[1]))
    for ta in (False, True):
        for tb in (False, True):
            sa = (3, 2) if ta else (2, 3)
            sb = (2, 3) if tb else (3, 2)
            reg("gemm_%d%d" % (ta, tb), [sa, sb], lambda g, x, st, ta=ta, tb=tb: g.gemm(x[0], x[1], ta, tb))
    reg("gemm_batch1", [(1, 2, 3), (2, 2, 3)], lambda g, x, st: g.gemm(x[0], x[1], False, True))
    reg("slice_two_singles_neg", [(2, 5)], lambda g, x, st: g.get_slice(x[0], [1, -4]))
    reg("slice_two_singles_neg2", [(2, 3)], lambda g, x, st: g.get_slice(x[0], [0, -2]))
    reg("slice_three_mixed", [(2, 3, 4)], lambda g, x, st: g.get_slice(x[0], [-1, (None, None, 2), -3]))
    reg("stack_scalar_first", [(), (2,)], lambda g, x, st: g.stack([x[0], x[1]], [2]))
    reg("stack_scalar_first_2d", [(), (2, 2)], lambda g, x, st: g.stack([x[0], x[1], x[0]], [3]))
    reg("stack_scalars", [(), ()], lambda g, x, st: g.stack([x[0], x[1]], [2]))
    reg("stack_scalars_2d", [(), ()], lambda g, x, st: g.stack([x[0], x[1], x[1], x[0]], [2, 2]))
    reg("get_full", [(2, 3)], lambda g, x, st: g.get(x[0], [1, 2]))
    reg("slice_all_single", [(2, 3)], lambda g, x, st: g.get_slice(x[0], [-1, 0]))
    reg("slice_step_big", [(5,)], lambda g, x, st: g.get_slice(x[0], [(-1, None, -3)]))
    reg("slice_neg_start", [(5, 2)], lambda g, x, st: g.get_slice(x[0], [(-4, -1, 2), "..."]))
    reg("matmul_11", [(3,), (3,)], lambda g, x, st: g.matmul(x[0], x[1]))
    reg("matmul_13", [(2,), (3, 2, 2)], lambda g, x, st: g.matmul(x[0], x[1]))
    reg("matmul_31", [(3, 2, 2), (2,)], lambda g, x, st: g.matmul(x[0], x[1]))
    reg("gemm_batch1_b", [(2, 2, 3), (1, 2, 3)], lambda g, x, st: g.gemm(x[0], x[1], False, True))
    reg("gemm_rank3_tt", [(2, 3, 2), (2, 2, 3)], lambda g, x, st: g.gemm(x[0], x[1], True, True))
    reg("sum_all3", [(2, 1, 3)], lambda g, x, st: g.sum(x[0], [0, 1, 2]))
    reg("sum_last", [(2, 3, 2)], lambda g, x, st: g.sum(x[0], [2]))
    reg("cumsum_last3", [(2, 2, 3)], lambda g, x, st: g.cumsum(x[0], 2))
    reg("concat_last3", [(2, 1, 2), (2, 1, 1)], lambda g, x, st: g.concat([x[0], x[1]], 2))
    reg("permute_id", [(2, 3)], lambda g, x, st: g.permute_axes(x[0], [0, 1]))
    reg("reshape_1", [(1,)], lambda g, x, st: g.reshape(x[0], A((1, 1), st)))
    reg("sum_all", [(2, 3)], lambda g, x, st: g.sum(x[0], [0, 1]))
    reg("sum_mid", [(2, 3, 2)], lambda g, x, st: g.sum(x[0], [1]))
    reg("sum_empty_axes", [(2, 3)], lambda g, x, st: g.sum(x[0], []))
    reg("cumsum_0", [(3, 2)], lambda g, x, st: g.cumsum(x[0], 0))
    reg("cumsum_1", [(3, 2)], lambda g, x, st: g.cumsum(x[0], 1))
    reg("permute", [(2, 3, 2)], lambda g, x, st: g.permute_axes(x[0], [2, 0, 1]))
    reg("get", [(2, 3, 2)], lambda g, x, st: g.get(x[0], [1, 2]))
    reg("slice_neg", [(4, 3)], lambda g, x, st: g.get_slice(x[0], [(None, None, -2), (-1, None, -1)]))
    reg("slice_ell", [(2, 3, 2)], lambda g, x, st: g.get_slice(x[0], ["...", 1]))
    reg("slice_mix", [(4, 3)], lambda g, x, st: g.get_slice(x[0], [(1, -1, None), -2]))
    reg("reshape", [(2, 3)], lambda g, x, st: g.reshape(x[0], A((3, 2), st)))
    reg("stack_bcast", [(2,), ()], lambda g, x, st: g.stack([x[0], x[1], x[0]], [3]))
    reg("stack_2d", [(2,), (2,)], lambda g, x, st: g.stack([x[0], x[1], x[1], x[0]], [2, 2]))
    reg("concat_0", [(2, 2), (1, 2)], lambda g, x, st: g.concat([x[0], x[1]], 0))
    reg("concat_1", [(2, 2), (2, 1)], lambda g, x, st: g.concat([x[0], x[1], x[0]], 1))
    reg("a2v_v2a", [(3, 2)], lambda g, x, st: g.v2a(g.a2v(x[0])))
    reg("a2v_get", [(3, 2)], lambda g, x, st: g.vector_get(g.a2v(x[0]), g.const(T.scalar("u64"), "2")))
    reg("zip", [(2, 2), (2,)], lambda g, x, st: g.zip([g.a2v(x[0]), g.a2v(x[1])]))
    reg("repeat_v2a", [(2,)], lambda g, x, st: g.v2a(g.repeat(x[0], 3)))
    reg("tuple_rt", [(2,), ()], lambda g, x, st: g.tuple_get(g.tuple([x[0], x[1]]), 0))
    reg("a2b", [(2,)], lambda g, x, st: g.a2b(x[0]))
    reg("a2b_b2a", [(2,)], lambda g, x, st: g.b2a(g.a2b(x[0]), st))
    reg("truncate_3", [(3,)], lambda g, x, st: g.truncate(x[0], 3), only="nobit")
    reg("truncate_pow", [(3,)], lambda g, x, st: g.truncate(x[0], 1 << (st_bits(st) - 2)), only="wide")
    reg("truncate_big", [(3,)], lambda g, x, st: g.truncate(x[0], (1 << 65) + 1), only="w128")
    reg("gather", [(3, 2)], lambda g, x, st: g.gather(x[0], g.const(A((2,), "u64"), ["2", "0"]), 0))
    reg("gather_ax1", [(2, 3)], lambda g, x, st: g.gather(x[0], g.const(A((2,), "u64"), ["2", "0"]), 1))
    reg("apply_perm", [(3, 2)], lambda g, x, st: g.apply_permutation(x[0], g.const(A((3,), "u64"), ["2", "0", "1"])))
    reg("apply_perm_inv", [(3,)], lambda g, x, st: g.apply_permutation(x[0], g.const(A((3,), "u64"), ["2", "0", "1"]), True))
    reg("sort_payload", [(3, 2), (3,)], lambda g, x, st: g.sort(g.ntuple([("k", g.a2b(g.const(A((3,), "u8"), ["2", "1", "2"]))), ("v", x[0]), ("w", x[1])]), "k"))
    reg("mixed_multiply", [(2, 3)], lambda g, x, st: g.mixed_mul(x[0], g.const(A((3,), "bit"), ["1", "0", "1"])), only="nobit")
    return t


def gen_cases(tier, seed):
    cases = []
    k = 0
    for name, (shapes, f, only) in op_templates().items():
        for st in SCALARS:
            w = st_bits(st)
            if only == "nobit" and st == "bit":
                continue
            if only == "wide" and w < 8:
                continue
            if only == "w128" and w != 128:
                continue
            if tier == "quick" and w not in (1, 128) and (hash((name, st)) + seed) % 3 != 0:
                continue
            in_types = [A(s, st) for s in shapes]

            def build(g, f=f, in_types=in_types, st=st):
                xs = [g.input(t) for t in in_types]
                return f(g, xs, st)
            try:
                prog = single_graph(build)
            except Exception:
                continue
            k += 1
            cases.append(dict(id="%s:%s" % (name, st), op=name, st=st, prog=prog, in_types=[t.to_json() for t in in_types], vseed=seed * 977 + k))
    # random short programs with random parameters (axes, slices, shapes, transposition flags) for every scalar type
    n_rand = 12 if tier == "quick" else 60
    for st in SCALARS:
        for r in range(n_rand):
            rs = seed * 7919 + r * 131 + st_bits(st)
            rng = random.Random(rs)
            rp = gen.RandProg(rng, st, max_elems=12)
            for _ in range(rng.choice([1, 2, 2])):
                rp.new_input(A(rng.choice([s for s in gen.SHAPES if gen.nelem(s) <= 8]), st))
            rp.grow(rng.randint(1, 3), weights=dict(structural=5, contract=3, reduce=3, container=2, elementwise=2, const=1))
            k += 1
            cases.append(dict(id="rand:%s:%d" % (st, rs), op="rand:" + "+".join(rp.ops_used), st=st, prog=rp.finish(), in_types=[t.to_json() for t in rp.in_types], vseed=rs))
    return cases


def build_job(case, n_evals):
    rng = random.Random(case["vseed"])
    in_types = [T.from_json(j) for j in case["in_types"]]
    evals = []
    case["_eval_inputs"] = []
    for kk in range(n_evals):
        xs = [vals.sample_value(t, rng, "boundary" if kk < n_evals - 1 else "random") for t in in_types]
        evals.append(dict(ctx=0, inputs=[vals.enc(t, d) for t, d in zip(in_types, xs)]))
        case["_eval_inputs"].append(xs)
    return dict(id=case["id"], ctx=case["prog"], stages=[], dump=[0], evals=evals)


def run(chk, prop):
    """prop: 'C10' (value mismatches) or 'C09' (panics / check_type). fills chk."""
    cases = gen_cases(chk.tier, chk.seed)
    n_evals = 4 if chk.tier == "quick" else 12
    drv.build()
    results = drv.run_jobs([build_job(c, n_evals) for c in cases])
    for c, r in zip(cases, results):
        chk.count("opval_programs")
        c0 = (r.get("contexts") or [{}])[0]
        if not c0.get("ok"):
            if c0.get("panic"):
                if prop == "C09":
                    chk.violation("opval-panic-build|%s" % c["op"], "%s: panic while adding a node (must be an error): %s" % (c["id"], c0.get("error")), dict(kind="opval", case=c["id"], prog=c["prog"]))
            else:
                chk.count("opval_rejected_by_builder")
            continue
        ctx = c0["dump"]
        for ev, ins in zip(r.get("evals", []), c["_eval_inputs"]):
            chk.count("opval_vectors")
            v = validate.validate(ctx, ev, ins)
            if v["ok"] is None:
                chk.count("opval_unsupported")
                continue
            for m in v["mismatches"]:
                is_c09 = m.get("op") in ("<check_type>",) or "PANIC" in str(m.get("why", "")) or "layout" in str(m.get("why", "")) or "unexpected runtime error" in str(m.get("why", ""))
                if prop == "C09" and is_c09:
                    chk.violation("opval|%s|%s" % (c["op"], "w128" if st_bits(c["st"]) == 128 else "narrow"),
                                  "%s inputs=%s: %s" % (c["id"], ins, m), dict(kind="opval", case=c["id"], prog=c["prog"], inputs=ins, mismatch=m))
                if prop == "C10" and not is_c09:
                    chk.violation("opval|%s|%s" % (c["op"], "w128" if st_bits(c["st"]) == 128 else "narrow"),
                                  "%s inputs=%s: real evaluator %s vs documented semantics %s at node %s (%s)" % (c["id"], ins, m.get("real"), m.get("spec"), m.get("node"), m.get("why", m.get("op"))),
                                  dict(kind="opval", case=c["id"], prog=c["prog"], inputs=ins, mismatch=m))
            if v["ok"]:
                chk.count("opval_vectors_agree")
    return len(cases)
