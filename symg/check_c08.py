"""C08 - custom-operation instantiation is total and meaning-preserving.
Real code encoded: custom_ops::run_instantiation_pass (Instantiation, process_instantiation, glue),
every library CustomOperationBody::instantiate reached, Graph::set_name uniqueness, then
inline::inline_ops::inline_operations to obtain one term DAG."""
import itertools
import random

import z3

from . import drv, vals, solve, validate, mpc_common as mc, speccheck
from . import check_c16, check_c17  # registers the specs
from .cctypes import T
from .common import Check, pool_map, safe_analyze
from .interp import Interp, Unsupported, flat_elems, Arr
from .prog import CB
from .validate import op_name


def A(shape, st):
    return T.scalar(st) if shape == () else T.array(shape, st)


B8 = A((2, 8), "bit")
B8b = A((8,), "bit")
NT = T.ntuple([("a", A((3,), "u8")), ("b", A((3,), "i8")), ("c", A((3, 2), "u8")), ("d", A((3,), "bit"))])
I64 = A((2,), "i64")

# name -> (argument types, list of parameter dicts, spec builder or None)
CATALOGUE = {
    "LessThan": ([B8, B8b], [dict(signed_comparison=False), dict(signed_comparison=True)], lambda p: dict(spec="cmp", op="LessThan", signed=p["signed_comparison"])),
    "GreaterThanEqualTo": ([B8, B8b], [dict(signed_comparison=False), dict(signed_comparison=True)], lambda p: dict(spec="cmp", op="GreaterThanEqualTo", signed=p["signed_comparison"])),
    "GreaterThan": ([B8, B8b], [dict(signed_comparison=False), dict(signed_comparison=True)], lambda p: dict(spec="cmp", op="GreaterThan", signed=p["signed_comparison"])),
    "LessThanEqualTo": ([B8, B8b], [dict(signed_comparison=False), dict(signed_comparison=True)], lambda p: dict(spec="cmp", op="LessThanEqualTo", signed=p["signed_comparison"])),
    "Equal": ([B8, B8b], [dict()], lambda p: dict(spec="cmp", op="Equal", signed=False)),
    "NotEqual": ([B8, B8b], [dict()], lambda p: dict(spec="cmp", op="NotEqual", signed=False)),
    "Min": ([B8, B8b], [dict(signed_comparison=False), dict(signed_comparison=True)], lambda p: dict(spec="minmax", op="Min", signed=p["signed_comparison"])),
    "Max": ([B8, B8b], [dict(signed_comparison=False), dict(signed_comparison=True)], lambda p: dict(spec="minmax", op="Max", signed=p["signed_comparison"])),
    "BinaryAdd": ([B8, B8b], [dict(overflow_bit=False), dict(overflow_bit=True)], lambda p: dict(spec="adder", overflow=p["overflow_bit"])),
    "Clip2K": ([B8], [dict(k=1), dict(k=2), dict(k=5)], lambda p: dict(spec="clip", k=p["k"])),
    "LongDivision": ([B8, A((1, 8), "bit")], [dict(signed=False), dict(signed=True)], lambda p: dict(spec="longdiv", signed=p["signed"])),
    "SortByIntegerKey": ([NT], [dict(key="a"), dict(key="b"), dict(key="d")], lambda p: dict(spec="intsort", key=p["key"])),
    "Mux": ([A((2,), "bit"), A((2,), "u8"), A((2,), "u8")], [dict()], lambda p: dict(spec="mux")),
    "Not": ([B8], [dict()], None),
    "Or": ([B8, B8b], [dict()], None),
    "NewtonInversion": ([I64], [dict(iterations=2, denominator_cap_2k=10), dict(iterations=3, denominator_cap_2k=10), dict(iterations=2, denominator_cap_2k=12)], None),
    "InverseSqrt": ([I64], [dict(iterations=2, denominator_cap_2k=10), dict(iterations=3, denominator_cap_2k=10), dict(iterations=2, denominator_cap_2k=12)], None),
    "GoldschmidtDivision": ([I64, I64], [dict(iterations=2, denominator_cap_2k=10), dict(iterations=3, denominator_cap_2k=10), dict(iterations=2, denominator_cap_2k=12)], None),
    "TaylorExponent": ([I64], [dict(taylor_terms=3, fixed_precision_points=8), dict(taylor_terms=4, fixed_precision_points=8), dict(taylor_terms=3, fixed_precision_points=10)], None),
    "ApproxSigmoid": ([I64], [dict(precision=10, approximation_log_buckets=3), dict(precision=10, approximation_log_buckets=4), dict(precision=12, approximation_log_buckets=3)], None),
    "ApproxExponent": ([I64], [dict(precision=10), dict(precision=12)], None),
    "ApproxGeluDerivative": ([I64], [dict(precision=10, approximation_log_buckets=3), dict(precision=10, approximation_log_buckets=4), dict(precision=12, approximation_log_buckets=3)], None),
    "FixedMultiply": ([I64, I64], [dict(config=dict(fractional_bits=10, debug=False)), dict(config=dict(fractional_bits=10, debug=True)), dict(config=dict(fractional_bits=12, debug=False))], None),
    "ApproxGelu": ([I64], [dict(precision=10, approximation_log_buckets=3), dict(precision=10, approximation_log_buckets=4), dict(precision=12, approximation_log_buckets=3)], None),
}


@speccheck.spec("intsort")
def spec_intsort(case, ins, out):
    """stable sort of all columns by the integer key column (numeric order, signed aware)"""
    it = Interp(None, sym=True)
    names = ["a", "b", "c", "d"]
    tup = ins[0]
    key = tup[names.index(case["key"])]
    signed = key.st.startswith("i")
    w = key.w
    krows = []
    for e in key.flat():
        if signed:
            e = e ^ z3.BitVecVal(1 << (w - 1), w)
        krows.append([e])
    sel = it.stable_sort_perm(krows)
    exp = [it.apply_sel(col, sel) for col in tup]
    pairs = mc.eq_pairs(out, exp)
    if pairs is None:
        return [], z3.BoolVal(True)
    g = solve.neq_goal(pairs)
    return [], g if g is not None else z3.BoolVal(False)


def build_multi(items, mode_wrap=None):
    """items: list of (opname, params). One context: every op applied to its own inputs;
    output = tuple of all results. returns (ctx json, in_types, slices of inputs per item)"""
    c = CB()
    g = None
    if mode_wrap == "call":
        # custom nodes live in a callee graph
        callee = c.graph()
        ins, outs, in_types, sl = [], [], [], []
        for name, params in items:
            ats = CATALOGUE[name][0]
            xs = [callee.input(t) for t in ats]
            sl.append((len(in_types), len(ats)))
            in_types.extend(ats)
            outs.append(callee.custom(name, xs, **params))
        callee.set_output(callee.tuple(outs))
        g = c.graph()
        xs = [g.input(t) for t in in_types]
        g.set_output(g.call(callee, xs))
        return c.to_json(), in_types, sl
    g = c.graph()
    outs, in_types, sl = [], [], []
    for name, params in items:
        ats = CATALOGUE[name][0]
        xs = [g.input(t) for t in ats]
        sl.append((len(in_types), len(ats)))
        in_types.extend(ats)
        outs.append(g.custom(name, xs, **params))
    g.set_output(g.tuple(outs))
    return c.to_json(), in_types, sl


def gen_cases(tier, seed):
    rng = random.Random(seed)
    groups = []
    # (a) pairs that differ only in one parameter - the collision class
    for name, (ats, plist, sp) in CATALOGUE.items():
        for p, q in itertools.combinations(plist, 2):
            groups.append(("pair", [(name, p), (name, q)]))
        if len(plist) >= 3:
            groups.append(("triple", [(name, p) for p in plist]))
    # (b) the same instantiation used several times
    for name in ["LessThan", "Min", "Clip2K", "SortByIntegerKey", "ApproxSigmoid"]:
        p = CATALOGUE[name][1][0]
        groups.append(("repeat", [(name, p), (name, p), (name, p)]))
    # (c) mixtures of 2-4 different operations sharing sub-instantiations
    names = list(CATALOGUE.keys())
    n_mix = 25 if tier == "quick" else 150
    for i in range(n_mix):
        k = rng.choice([2, 3, 4])
        items = []
        for nm in rng.sample(names, k):
            items.append((nm, rng.choice(CATALOGUE[nm][1])))
        if rng.random() < 0.5:
            nm = items[0][0]
            items.append((nm, rng.choice(CATALOGUE[nm][1])))
        groups.append(("mix", items))
    cases = []
    for gi, (kind, items) in enumerate(groups):
        wrap = "call" if (gi + seed) % 4 == 0 else None
        prog, in_types, sl = build_multi(items, wrap)
        mode = ["simple", "depth_default"][(gi + seed) % 2]
        singles = []
        for name, params in items:
            p1, t1, _ = build_multi([(name, params)])
            singles.append(p1)
        cases.append(dict(id="%s:%d:%s" % (kind, gi, "+".join("%s%s" % (n, sorted(p.items())) for n, p in items))[:200],
                          kind=kind, items=[[n, p] for n, p in items], prog=prog, singles=singles, in_types=[t.to_json() for t in in_types],
                          slices=sl, mode=mode, wrap=wrap, vseed=seed * 31 + gi))
    return cases


def jobs_for(case):
    stages = [dict(op="instantiate", **{"from": 0}), dict(op="inline", **{"from": 1}, inline=case["mode"])]
    jobs = [dict(id=case["id"], ctx=case["prog"], stages=stages, dump=[2])]
    for s in case["singles"]:
        jobs.append(dict(id=case["id"] + "/single", ctx=s, stages=stages, dump=[2]))
    return jobs


@safe_analyze(lambda a: dict(id=a[0]["id"], status=None, queries=[], note="", findings=[], n_nodes=0, spec_checked=0, single_checked=0))
def analyze(args):
    case, results, timeout_s = args
    out = dict(id=case["id"], status=None, queries=[], note="", findings=[], n_nodes=0, spec_checked=0, single_checked=0)
    try:
        rm = results[0]
        ctxs = rm.get("contexts")
        if ctxs is None:
            out["status"] = "driver_fatal"
            return out
        if not ctxs[0].get("ok"):
            out["status"] = "rejected"
            out["note"] = ctxs[0].get("error", "")
            return out
        if not ctxs[1].get("ok"):
            out["status"] = "finding"
            out["findings"].append(dict(kind="totality", text="run_instantiation_pass failed on a context whose nodes all type-check: %s" % ctxs[1].get("error")))
            return out
        if not ctxs[2].get("ok"):
            out["status"] = "inline_failed"
            out["note"] = ctxs[2].get("error", "")
            return out
        M = ctxs[2]["dump"]
        gM = M["graphs"][M["main"]]
        out["n_nodes"] = len(gM["nodes"])
        if any(op_name(n) == "Custom" for g in M["graphs"] for n in g["nodes"]):
            out["findings"].append(dict(kind="left_custom", text="instantiated context still contains a custom node"))
        in_types = [T.from_json(j) for j in case["in_types"]]
        it = Interp(M, sym=True)
        xs = [it.fresh_value(t, "x%d" % i) for i, t in enumerate(in_types)]
        mv = it.run_graph(M["main"], xs)
        mout = mv[gM["output"]]
        status = "unsat"
        for i, (name, params) in enumerate(case["items"]):
            lo, n = case["slices"][i]
            comp = mout[i]
            args_i = xs[lo:lo + n]
            # (2b) stand-alone instantiation of the same node
            rs = results[1 + i]
            cs = rs.get("contexts")
            if cs is None or not all(c.get("ok") for c in cs):
                out["findings"].append(dict(kind="single_failed", text="%s%s alone cannot be instantiated: %s" % (name, params, [c.get("error") for c in (cs or [])])))
                continue
            Sg = cs[2]["dump"]
            it.ctx = Sg
            it.tag = "S%d." % i
            sv = it.run_graph(Sg["main"], args_i)
            sout = sv[Sg["graphs"][Sg["main"]]["output"]][0]
            pairs = mc.eq_pairs(comp, sout)
            if pairs is None:
                out["findings"].append(dict(kind="collision_shape", text="%s%s: result layout in the mixed context differs from the stand-alone instantiation" % (name, params)))
                continue
            goal = solve.neq_goal(pairs)
            if goal is not None:
                terms = []
                for v in args_i:
                    terms.extend(flat_elems(v))
                r = solve.check_sat_forked(goal, list(it.assumptions), model_terms=terms, timeout_s=timeout_s, kind="mixed")
                out["queries"].append(dict(name="single:%s" % name, verdict=r.verdict, tactic=r.tactic, secs=round(r.secs, 3)))
                if r.verdict == "sat":
                    pos = [0]
                    cex = [mc.nest_like(v, r.model, pos) for v in args_i] if r.model else None
                    out["findings"].append(dict(kind="collision", item=i, cex=cex,
                                                text="%s%s computes something else in the mixed context than when instantiated alone (inputs %s)" % (name, params, cex)))
                elif r.verdict != "unsat":
                    status = "unknown"
            else:
                out["queries"].append(dict(name="single:%s" % name, verdict="unsat", tactic="syntactic", secs=0.0))
            out["single_checked"] += 1
            # (2a) library definition (bit-vector spec) where one exists
            spb = CATALOGUE[name][2]
            if spb is not None:
                sc = dict(spb(params))
                pre, bad = speccheck.SPECS[sc["spec"]](sc, args_i, comp)
                r = solve.check_sat_forked(bad, list(pre), timeout_s=timeout_s, kind="bits")
                out["queries"].append(dict(name="spec:%s" % name, verdict=r.verdict, tactic=r.tactic, secs=round(r.secs, 3)))
                if r.verdict == "sat":
                    out["findings"].append(dict(kind="meaning", item=i, text="%s%s in the mixed context violates its library definition (%s)" % (name, params, sc["spec"])))
                elif r.verdict != "unsat":
                    status = "unknown"
                out["spec_checked"] += 1
        out["status"] = status if not out["findings"] else "finding"
    except Unsupported as e:
        out["status"] = "unsupported"
        out["note"] = str(e)
    return out


def main():
    chk = Check("C08", "translation_validation")
    chk.module = "symg.check_c08"
    cases = gen_cases(chk.tier, chk.seed)
    timeout_s = 120
    drv.build()
    alljobs = []
    spans = []
    for c in cases:
        js = jobs_for(c)
        spans.append((len(alljobs), len(js)))
        alljobs.extend(js)
    results = drv.run_jobs(alljobs)
    outs = pool_map(analyze, [(c, results[a:a + n], timeout_s) for c, (a, n) in zip(cases, spans)])
    for c, o in zip(cases, outs):
        chk.count("programs")
        chk.count("status_" + str(o["status"]))
        chk.count("spec_checked", o["spec_checked"])
        chk.count("standalone_compared", o["single_checked"])
        for q in o["queries"]:
            chk.count("queries")
            chk.solver_secs += q["secs"]
        cj = {k: v for k, v in c.items() if not k.startswith("_") and k != "singles"}
        for f in o["findings"]:
            chk.count("finding_" + f["kind"])
            opnames = sorted({n for n, _ in c["items"]})
            if f["kind"] == "totality":
                # role key: which operation pair collides
                key = "totality|" + "+".join(sorted("%s%s" % (n, sorted(p.items())) for n, p in c["items"]))
                if c["kind"] in ("pair", "triple"):
                    key = "totality|%s|params-differ" % c["items"][0][0]
            else:
                key = "%s|%s" % (f["kind"], "+".join(opnames))
            chk.violation(key, "%s: %s" % (c["id"], f["text"]), dict(kind="c08", module="symg.check_c08", case=cj, finding=f))
        if o["status"] == "unsat":
            chk.sample(dict(case=c["id"], nodes=o["n_nodes"], queries=[(q["name"], q["verdict"]) for q in o["queries"]]))
        elif o["status"] in ("finding",):
            pass
        elif o["status"] == "rejected":
            chk.count("rejected_by_builder")
            chk.sample(dict(case=c["id"], rejected=o["note"][:200]))
        else:
            chk.inconc("%s: %s %s %s" % (c["id"], o["status"], o["note"], [q for q in o["queries"] if q["verdict"] not in ("unsat",)][:2]))
    chk.functions = ["custom_ops::run_instantiation_pass (Instantiation::get_name, process_instantiation, glue_context)", "graphs::Graph::set_name (uniqueness)",
                     "CustomOperationBody::instantiate of: " + ", ".join(CATALOGUE.keys()), "inline::inline_ops::inline_operations"]
    chk.bounds = dict(operations=len(CATALOGUE), pair_and_triple_contexts=sum(1 for c in cases if c["kind"] in ("pair", "triple")), mixtures=sum(1 for c in cases if c["kind"] == "mix"),
                      argument_types="bit[2,8] x bit[8] bit strings; named tuple {a:u8[3], b:i8[3], c:u8[3,2], d:bit[3]}; i64[2] for the numeric approximations", nesting="custom nodes in the main graph or in a called graph")
    chk.outside = ["exact meaning of the approximate numeric operations (C20, not applicable): for them only totality and agreement with their stand-alone instantiation are checked",
                   "argument types other than those listed", "more than 5 custom nodes per context"]
    chk.assumptions = ["a context is 'type-checked' when Graph::add_node accepted every node (custom nodes are type-checked by instantiating them)"]
    chk.finish(dict(programs=len(cases), disagreements_checked=chk.counts.get("finding_collision", 0) + chk.counts.get("finding_meaning", 0), evaluations=len(cases),
                    distinct_nontrivial=len({tuple(sorted(n for n, _ in c["items"])) for c in cases}),
                    rule="context = multiset of (custom operation, parameters) applied to fresh inputs; distinct = distinct operation multisets",
                    explanation="totality observed on run_instantiation_pass; each custom node's value in the mixed instantiated context is compared by the solver, for all inputs, "
                                "with its stand-alone instantiation and (exact operations) with its bit-vector library definition"))


if __name__ == "__main__":
    main()
