"""Independent encoder/decoder between nested integer lists and the driver's VAL form
({"b": hex} | {"v":[...]}) following ciphercore's documented byte layout: little-endian
elements, bits packed LSB-first eight to a byte."""
from .cctypes import st_bits


def enc(t, dec):
    """dec: for scalar an int (or [int]); array: flat list of ints; containers: list"""
    if t.is_arr():
        w = st_bits(t.st)
        if t.kind == "scalar":
            xs = [dec[0] if isinstance(dec, list) else dec]
        else:
            xs = list(dec)
            assert len(xs) == t.num_elements(), (t, len(xs))
        xs = [int(x) % (1 << w) for x in xs]
        if w == 1:
            bs = bytearray((len(xs) + 7) // 8)
            for i, x in enumerate(xs):
                if x & 1:
                    bs[i // 8] |= 1 << (i % 8)
        else:
            bs = bytearray()
            for x in xs:
                bs += x.to_bytes(w // 8, "little")
        return {"b": bytes(bs).hex()}
    return {"v": [enc(c, d) for c, d in zip(t.children(), dec)]}


def dec(t, val):
    """returns flat list of ints for scalar/array, nested lists for containers; None on
    layout mismatch"""
    if t.is_arr():
        if "b" not in val:
            return None
        bs = bytes.fromhex(val["b"])
        w = st_bits(t.st)
        n = t.num_elements()
        if w == 1:
            if len(bs) != (n + 7) // 8:
                return None
            return [(bs[i // 8] >> (i % 8)) & 1 for i in range(n)]
        nb = w // 8
        if len(bs) != nb * n:
            return None
        return [int.from_bytes(bs[i * nb:(i + 1) * nb], "little") for i in range(n)]
    if "v" not in val:
        return None
    ch = t.children()
    if len(ch) != len(val["v"]):
        return None
    out = []
    for c, v in zip(ch, val["v"]):
        d = dec(c, v)
        if d is None:
            return None
        out.append(d)
    return out


def stray_bits(t, val):
    """True if a bit-array value has non-zero padding bits"""
    if t.is_arr():
        if st_bits(t.st) != 1 or "b" not in val:
            return False
        bs = bytes.fromhex(val["b"])
        n = t.num_elements()
        if len(bs) * 8 == n or not bs:
            return False
        return (bs[-1] >> (n % 8)) != 0
    return any(stray_bits(c, v) for c, v in zip(t.children(), val.get("v", [])))


def boundary_ints(st):
    w = st_bits(st)
    if w == 1:
        return [0, 1]
    m = 1 << w
    vs = [0, 1, 2, m - 1, m - 2, m >> 1, (m >> 1) - 1, (m >> 1) + 1, 3, 0x55 % m, (m // 3)]
    if w > 64:
        vs += [1 << 64, (1 << 64) + 1, (1 << 64) - 1, 1 << 100]
    if w > 32:
        vs += [1 << 32, (1 << 32) - 1]
    return [v % m for v in vs]


def sample_value(t, rng, mode):
    """nested ints for type t. mode: 'boundary' mixes boundary values, 'random' uniform"""
    if t.is_arr():
        w = st_bits(t.st)
        n = t.num_elements()
        bl = boundary_ints(t.st)
        out = []
        for _ in range(n):
            if mode == "boundary" and rng.random() < 0.7:
                out.append(rng.choice(bl))
            else:
                out.append(rng.getrandbits(w))
        return out
    return [sample_value(c, rng, mode) for c in t.children()]


def to_interp_value(it, t, d):
    """nested ints -> interpreter value (concrete or symbolic constants)"""
    return it.const_value(t, d)


def from_interp_value(v):
    """concrete interpreter value -> nested ints"""
    from .interp import Arr
    if isinstance(v, Arr):
        return [int(x) for x in v.flat()]
    return [from_interp_value(x) for x in v]
