"""C16 - comparison operations equal integer comparison.
Real code encoded: ops::comparisons::{Equal,NotEqual,LessThan,LessThanEqualTo,GreaterThan,
GreaterThanEqualTo}::instantiate, ops::min_max::{Min,Max}::instantiate (+ Mux, Not),
custom_ops::run_instantiation_pass, inline::inline_ops::inline_operations."""
import numpy as np
import z3

from . import speccheck
from .cctypes import T
from .common import Check
from .interp import Arr, oarr, wrap
from .prog import single_graph

CMP = {
    "Equal": (None, lambda a, b, s: a == b),
    "NotEqual": (None, lambda a, b, s: a != b),
    "LessThan": ("signed_comparison", lambda a, b, s: (a < b) if s else z3.ULT(a, b)),
    "LessThanEqualTo": ("signed_comparison", lambda a, b, s: (a <= b) if s else z3.ULE(a, b)),
    "GreaterThan": ("signed_comparison", lambda a, b, s: (a > b) if s else z3.UGT(a, b)),
    "GreaterThanEqualTo": ("signed_comparison", lambda a, b, s: (a >= b) if s else z3.UGE(a, b)),
}


def ints_of(v):
    """Arr bit[..., w] -> object array [...] of w-bit terms (bit 0 = LSB)"""
    w = v.shape[-1]
    lead = tuple(v.shape[:-1])
    fl = v.flat()
    els = []
    for k in range(len(fl) // w):
        bits = fl[k * w:(k + 1) * w]
        els.append(z3.Concat(*reversed(bits)) if w > 1 else bits[0])
    return oarr(els, lead) if lead != () else oarr(els[0])


@speccheck.spec("cmp")
def spec_cmp(case, ins, out):
    a, b = ints_of(ins[0]), ints_of(ins[1])
    f = CMP[case["op"]][1]
    s = case.get("signed", False)
    A, B = np.broadcast_arrays(a, b)
    exp = [f(x, y, s) for x, y in zip(A.reshape(-1), B.reshape(-1))] if A.shape != () else [f(A[()], B[()], s)]
    got = out.flat()
    if len(got) != len(exp) or tuple(out.shape) != tuple(A.shape):
        return [], z3.BoolVal(True)
    bad = [g != z3.If(e, z3.BitVecVal(1, 1), z3.BitVecVal(0, 1)) for g, e in zip(got, exp)]
    return [], z3.Or(*bad) if len(bad) > 1 else bad[0]


@speccheck.spec("minmax")
def spec_minmax(case, ins, out):
    a, b = ints_of(ins[0]), ints_of(ins[1])
    s = case.get("signed", False)
    A, B = np.broadcast_arrays(a, b)
    w = ins[0].shape[-1]
    fa = list(A.reshape(-1)) if A.shape != () else [A[()]]
    fb = list(B.reshape(-1)) if B.shape != () else [B[()]]
    exp = []
    for x, y in zip(fa, fb):
        lt = (x < y) if s else z3.ULT(x, y)
        if case["op"] == "Min":
            exp.append(z3.If(lt, x, y))
        else:
            exp.append(z3.If(lt, y, x))
    if tuple(out.shape) != tuple(A.shape) + (w,):
        return [], z3.BoolVal(True)
    got = ints_of(out)
    gl = list(got.reshape(-1)) if got.shape != () else [got[()]]
    bad = [g != e for g, e in zip(gl, exp)]
    return [], z3.Or(*bad) if len(bad) > 1 else bad[0]


def gen_cases(tier, seed):
    if tier == "quick":
        widths = list(range(1, 18)) + [31, 32, 33, 63, 64, 128]
        mm_widths = [1, 2, 3, 5, 8, 16, 33, 64]
    else:
        widths = list(range(1, 65)) + [96, 127, 128]
        mm_widths = list(range(1, 34)) + [63, 64, 128]
    modes = ["simple", "depth_default"]
    shapes_small = [((), ()), ((2,), ()), ((2, 1), (3,)), ((), (2,))]
    cases = []
    variants = []
    for op, (param, _) in CMP.items():
        if param is None:
            variants.append((op, None))
        else:
            variants += [(op, False), (op, True)]
    k = 0
    for op, signed in variants:
        for w in widths:
            if signed and w < 2:
                continue
            # all shape patterns for small widths; one rotating pattern (by seed) for large ones
            shs = shapes_small if w <= 6 else [shapes_small[(k + seed) % len(shapes_small)]]
            for (sa, sb) in shs:
                mode = modes[(k + seed) % 2] if w > 6 else None
                for m in ([mode] if mode else modes):
                    k += 1
                    ta, tb = T.array(sa + (w,), "bit"), T.array(sb + (w,), "bit")
                    params = {} if signed is None else {"signed_comparison": signed}
                    prog = single_graph(lambda g: g.custom(op, [g.input(ta), g.input(tb)], **params))
                    cases.append(dict(id="%s_%s_w%d_%s_%s_%s" % (op, "s" if signed else "u", w, list(sa), list(sb), m),
                                      spec="cmp", op=op, signed=bool(signed), prog=prog,
                                      in_types=[ta.to_json(), tb.to_json()],
                                      stages=[dict(op="instantiate"), dict(op="inline", inline=m)], vseed=k + seed))
    for op in ("Min", "Max"):
        for signed in (False, True):
            for w in mm_widths:
                if signed and w < 2:
                    continue
                shs = shapes_small if w <= 5 else [shapes_small[(k + seed) % len(shapes_small)]]
                for (sa, sb) in shs:
                    k += 1
                    m = modes[(k + seed) % 2]
                    ta, tb = T.array(sa + (w,), "bit"), T.array(sb + (w,), "bit")
                    prog = single_graph(lambda g: g.custom(op, [g.input(ta), g.input(tb)], signed_comparison=signed))
                    cases.append(dict(id="%s_%s_w%d_%s_%s_%s" % (op, "s" if signed else "u", w, list(sa), list(sb), m),
                                      spec="minmax", op=op, signed=signed, prog=prog,
                                      in_types=[ta.to_json(), tb.to_json()],
                                      stages=[dict(op="instantiate"), dict(op="inline", inline=m)], vseed=k + seed))
    # vacuity witnesses: the same machinery with a deliberately wrong specification must
    # produce a counterexample that replays on the real evaluator
    wit = []
    for c in cases:
        if c["spec"] == "cmp" and c["op"] == "LessThan" and ("_w5_" in c["id"] or "_w64_" in c["id"]):
            w = dict(c)
            w["id"] = "WITNESS_" + c["id"]
            w["op"] = "LessThanEqualTo"
            w["witness"] = True
            wit.append(w)
    return cases + wit[:6]


def main():
    chk = Check("C16", "other")
    chk.module = "symg.check_c16"
    cases = gen_cases(chk.tier, chk.seed)
    chk.functions = ["ops::comparisons::*::instantiate", "ops::min_max::{Min,Max}::instantiate",
                     "ops::multiplexer::Mux::instantiate", "custom_ops::{Not,run_instantiation_pass}",
                     "inline::inline_ops::inline_operations"]
    chk.bounds = dict(widths="1..17,31..33,63,64,128" if chk.tier == "quick" else "1..64,96,127,128",
                      shapes="[w] vs [w]; [2,w] vs [w]; [2,1,w] vs [3,w]; [w] vs [2,w]",
                      modes="Simple, DepthOptimized(Default)", solver_timeout_s=120)
    chk.outside = ["widths other than listed", "operand ranks > 3", "DepthOptimized(Extreme) (identical code path for these ops)"]
    chk.assumptions = ["operation semantics of the primitive ops as documented in graphs.rs (tied to the evaluator by translator validation vectors on every program and by the C10 Kani kernels)",
                       "bit 0 of a bit string is the least significant bit (as A2B produces)"]
    outs = speccheck.run(chk, cases, timeout_s=120)
    widths = sorted({int(c["id"].split("_w")[1].split("_")[0]) for c in cases})
    chk.finish(dict(
        explanation="Each case instantiates one comparison/min/max custom operation with the real instantiate code, inlines it with the real inliner, "
                    "symbolically executes the resulting bit-level graph over all operand values (z3 bit-vectors) and asks the solver for operands on which the "
                    "graph output differs from bvult/bvslt/... on the encoded integers; unsat = equal for every operand pair at that width/shape.",
        evaluations=len(cases),
        distinct_nontrivial=len({(c["op"], c["signed"], c["id"].split("_w")[1].split("_")[0]) for c in cases}),
        rule="one case per (operation, signedness, width, shape pattern, inline mode); distinct = distinct (operation, signedness, width)",
        widths=widths, programs=len(cases)))


if __name__ == "__main__":
    main()
