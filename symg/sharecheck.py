"""Supporting family for C14 (SAMPLED, not solver-decided): the Type-recursive sharing functions that
Kani cannot reach - TypedValue::{secret_share, secret_share_reveal, get_local_shares_for_each_party},
ReplicatedShares::{secret_share_for_parties, secret_share_for_local_evaluation, reveal, to_tuple},
mpc::utils::share_vector - run natively on typed values of every scalar type and nested containers
under several seeds; reconstruction and the per-party layout are checked on the results."""
import random

from . import drv, vals
from .cctypes import T, SCALARS, st_bits
from .prog import single_graph


def A(shape, st):
    return T.scalar(st) if shape == () else T.array(shape, st)


def types_for(tier):
    ts = []
    for st in SCALARS:
        ts += [A((), st), A((3,), st)]
    ts += [A((9,), "bit"), A((2, 5), "bit"), A((2, 2), "i128")]
    ts += [T.tuple([A((), "i64"), A((2,), "u8")]), T.vector(2, A((3,), "bit")), T.ntuple([("a", A((2,), "u128")), ("b", T.tuple([A((), "bit"), A((2,), "i16")]))]),
           T.tuple([]), T.vector(2, T.tuple([A((), "u32"), A((9,), "bit")]))]
    return ts


def add(t, a, b):
    if t.is_arr():
        m = 1 << st_bits(t.st)
        return [(x + y) % m for x, y in zip(a, b)]
    return [add(c, x, y) for c, x, y in zip(t.children(), a, b)]


def run(chk):
    rng = random.Random(chk.seed * 7 + 5)
    jobs, meta = [], []
    trivial = single_graph(lambda g: g.input(T.scalar("bit")))
    for t in types_for(chk.tier):
        sh = []
        for rep in range(3 if chk.tier == "quick" else 10):
            d = vals.sample_value(t, rng, "boundary" if rep == 0 else "random")
            seed = "%032x" % rng.getrandbits(128)
            sh.append(dict(type=t.to_json(), value=vals.enc(t, d), seed=seed))
            meta.append((t, d))
        jobs.append(dict(ctx=trivial, stages=[], dump=[], sharings=sh))
    res = drv.run_jobs(jobs)
    mi = 0
    for j, r in zip(jobs, res):
        for s, out in zip(j["sharings"], r.get("sharings", [])):
            t, d = meta[mi]
            mi += 1
            chk.count("sharing_samples")
            key_t = "w128" if (t.is_arr() and st_bits(t.st) == 128) else ("bit" if (t.is_arr() and t.st == "bit") else ("container" if not t.is_arr() else "narrow"))
            if "error" in out:
                chk.violation("sharing-error|%s" % key_t, "sharing %r of value %s failed: %s" % (t, d, out["error"]), dict(kind="sharing", type=t.to_json(), value=d, seed=s["seed"]))
                continue
            t3 = T.tuple([t, t, t])
            ss = vals.dec(t3, out["secret_share"])
            problems = []
            if ss is None:
                problems.append("secret_share result does not have the layout (t,t,t)")
            else:
                if add(t, add(t, ss[0], ss[1]), ss[2]) != d:
                    problems.append("the three shares do not add up to the secret")
                if vals.stray_bits(t3, out["secret_share"]):
                    problems.append("stray bits in a share")
            if vals.dec(t, out["reveal"]) != d:
                problems.append("secret_share_reveal(secret_share(v)) = %s" % vals.dec(t, out["reveal"]))
            if vals.dec(t, out["rs_local_reveal"]) != d:
                problems.append("ReplicatedShares reveal = %s" % vals.dec(t, out["rs_local_reveal"]))
            for nm in ("local", "rs_parties", "share_vector"):
                if nm not in out:
                    continue
                p = [vals.dec(t3, x) for x in out[nm]]
                if any(x is None for x in p) or len(p) != 3:
                    problems.append("%s: per-party values do not have the layout (t,t,t)" % nm)
                    continue
                # party i holds shares i and i+1; the copies agree; own slots reconstruct
                if not (p[0][0] == p[2][0] and p[0][1] == p[1][1] and p[1][2] == p[2][2]):
                    problems.append("%s: the two copies of a share differ between the parties holding it" % nm)
                if add(t, add(t, p[0][0], p[0][1]), p[1][2]) != d:
                    problems.append("%s: shares 0,1 (party 0) and 2 (party 1) do not reconstruct the secret" % nm)
                # the slot a party must not know is junk, not the true share (only meaningful for wide leaves)
                if t.is_arr() and st_bits(t.st) * t.num_elements() >= 64:
                    if p[0][2] == p[1][2] or p[1][0] == p[0][0] or p[2][1] == p[0][1]:
                        problems.append("%s: a party's third slot equals the true share it must not hold" % nm)
            if problems:
                chk.violation("sharing|%s|%s" % (key_t, problems[0].split(":")[0][:30]), "type %r value %s seed %s: %s" % (t, d, s["seed"], "; ".join(problems)),
                              dict(kind="sharing", type=t.to_json(), value=d, seed=s["seed"], problems=problems))
            else:
                chk.count("sharing_samples_ok")
    return mi
