"""Solver portfolio. A query is: assumptions /\ not(goal) satisfiable?  unsat = the
goal holds for all values of the free variables (within the encoded program).
Any unknown / timeout / solver error is 'unknown' (inconclusive), never a pass."""
import os
import subprocess
import tempfile
import time

import z3

CVC5 = "/usr/bin/cvc5"


class Result:
    def __init__(self, verdict, model=None, tactic=None, secs=0.0, note=""):
        self.verdict = verdict  # 'unsat' | 'sat' | 'unknown'
        self.model = model
        self.tactic = tactic
        self.secs = secs
        self.note = note

    def __repr__(self):
        return "Result(%s via %s in %.2fs %s)" % (self.verdict, self.tactic, self.secs, self.note)


def neq_goal(pairs):
    """pairs: list of (lhs, rhs) z3 terms; returns formula 'some pair differs' or None if
    all pairs are syntactically identical."""
    ds = []
    for a, b in pairs:
        if a.eq(b):
            continue
        ds.append(a != b)
    if not ds:
        return None
    return z3.Or(*ds) if len(ds) > 1 else ds[0]


def _tactics(kind):
    som = z3.With("simplify", som=True, som_blowup=1000000, flat=True, hoist_mul=False)
    t_som = ("som+smt", lambda: z3.Then(som, "smt"))
    t_qfbv = ("qfbv", lambda: z3.Tactic("qfbv"))
    t_aig = ("simplify+bitblast+aig+sat", lambda: z3.Then("simplify", "propagate-values", "solve-eqs",
                                                          "bit-blast", "aig", "sat"))
    if kind == "ring":
        return [t_som, t_qfbv, t_aig]
    if kind == "bits":
        return [t_qfbv, t_aig]
    return [t_qfbv, t_som, t_aig]


def check_sat(formula, assumptions=(), timeout_s=60, want_model=True, use_cvc5=True, tactics=None, kind="mixed"):
    """formula: z3 Bool whose satisfiability means a counterexample exists."""
    t0 = time.time()
    if z3.is_false(formula):
        return Result("unsat", tactic="syntactic", secs=0.0)
    notes = []
    if kind == "divconst" and os.path.exists(CVC5):
        # division / multiplication by constants: integer encoding keeping the mod-2^k semantics
        r = cvc5_check(formula, assumptions, min(60, timeout_s), extra_args=["--solve-bv-as-int=sum"])
        if r == "unsat":
            return Result("unsat", tactic="cvc5-bv-as-int", secs=time.time() - t0)
        notes.append("cvc5-bv-as-int: %s" % r)
        kind = "mixed"
    tl = _tactics(kind)
    if tactics is not None:
        tl = [t for t in tl if t[0] in tactics]
    per = max(1.0, timeout_s / max(1, len(tl)))
    for ti, (name, mk) in enumerate(tl):
        try:
            s = mk().solver()
            # the first tactic of the order chosen for this kind of query gets most of the budget
            budget = timeout_s * 0.7 if (ti == 0 and len(tl) > 1) else max(1.0, timeout_s * 0.3 / max(1, len(tl) - 1)) if len(tl) > 1 else timeout_s
            s.set("timeout", int(budget * 1000))
            for a in assumptions:
                s.add(a)
            s.add(formula)
            r = s.check()
        except z3.Z3Exception as e:
            notes.append("%s: %s" % (name, str(e)[:80]))
            continue
        if r == z3.unsat:
            return Result("unsat", tactic=name, secs=time.time() - t0)
        if r == z3.sat:
            m = s.model() if want_model else None
            return Result("sat", model=m, tactic=name, secs=time.time() - t0)
        notes.append("%s: unknown(%s)" % (name, s.reason_unknown()))
    if use_cvc5 and os.path.exists(CVC5):
        r = cvc5_check(formula, assumptions, per)
        if r == "unsat":
            return Result("unsat", tactic="cvc5", secs=time.time() - t0)
        if r == "sat":
            # no model import from cvc5: re-ask z3 with a long leash is pointless; report
            return Result("sat", model=None, tactic="cvc5", secs=time.time() - t0)
        notes.append("cvc5: %s" % r)
    return Result("unknown", secs=time.time() - t0, note="; ".join(notes))


def to_smt2(formula, assumptions=()):
    s = z3.Solver()
    for a in assumptions:
        s.add(a)
    s.add(formula)
    return "(set-logic ALL)\n" + s.to_smt2()


def cvc5_check(formula, assumptions, timeout_s, extra_args=()):
    txt = to_smt2(formula, assumptions)
    fd, path = tempfile.mkstemp(suffix=".smt2")
    try:
        with os.fdopen(fd, "w") as f:
            f.write(txt)
        try:
            p = subprocess.run([CVC5, "--lang", "smt2", "--tlimit=%d" % int(timeout_s * 1000)] + list(extra_args) + [path],
                               stdout=subprocess.PIPE, stderr=subprocess.PIPE, text=True, timeout=timeout_s + 10)
        except subprocess.TimeoutExpired:
            return "timeout"
        out = p.stdout.strip().splitlines()
        if any("(error" in l for l in out) or "(error" in p.stderr:
            return "error"
        if out and out[0] in ("sat", "unsat"):
            return out[0]
        return "unknown"
    finally:
        os.unlink(path)


def z3bin_check(formula, assumptions, timeout_s, binary="/usr/bin/z3"):
    """second opinion from the system z3 binary (4.8.12)"""
    txt = to_smt2(formula, assumptions)
    fd, path = tempfile.mkstemp(suffix=".smt2")
    try:
        with os.fdopen(fd, "w") as f:
            f.write(txt)
        try:
            p = subprocess.run([binary, "-T:%d" % int(timeout_s), path],
                               stdout=subprocess.PIPE, stderr=subprocess.PIPE, text=True, timeout=timeout_s + 10)
        except subprocess.TimeoutExpired:
            return "timeout"
        out = p.stdout.strip().splitlines()
        if any("(error" in l for l in out):
            return "error"
        if out and out[0] in ("sat", "unsat"):
            return out[0]
        return "unknown"
    finally:
        os.unlink(path)


def model_int(model, term):
    v = model.eval(term, model_completion=True)
    return v.as_long()


def check_sat_forked(formula, assumptions=(), model_terms=(), timeout_s=60, kind="mixed", use_cvc5=True):
    """Same as check_sat but in a forked child that is killed at the deadline (z3 tactics
    do not always honour their timeout). Returns Result whose .model is a list of ints for
    model_terms (or None)."""
    import pickle
    import select
    import signal
    if z3.is_false(formula):
        return Result("unsat", tactic="syntactic")
    t0 = time.time()
    rfd, wfd = os.pipe()
    pid = os.fork()
    if pid == 0:
        os.close(rfd)
        try:
            r = check_sat(formula, assumptions, timeout_s=timeout_s, kind=kind, use_cvc5=use_cvc5)
            vals = None
            if r.verdict == "sat" and r.model is not None:
                vals = [r.model.eval(t, model_completion=True).as_long() for t in model_terms]
            blob = pickle.dumps((r.verdict, vals, r.tactic, r.note))
        except BaseException as e:  # noqa
            blob = pickle.dumps(("unknown", None, None, "exception %r" % (e,)))
        try:
            os.write(wfd, blob)
        finally:
            os._exit(0)
    os.close(wfd)
    buf = b""
    deadline = t0 + timeout_s * 1.25 + 15
    verdict = ("unknown", None, None, "hard timeout")
    while True:
        left = deadline - time.time()
        if left <= 0:
            break
        rd, _, _ = select.select([rfd], [], [], min(left, 1.0))
        if rd:
            chunk = os.read(rfd, 1 << 20)
            if not chunk:
                break
            buf += chunk
    os.close(rfd)
    try:
        os.kill(pid, signal.SIGKILL)
    except OSError:
        pass
    try:
        os.waitpid(pid, 0)
    except OSError:
        pass
    if buf:
        try:
            verdict = pickle.loads(buf)
        except Exception:
            pass
    v, vals, tactic, note = verdict
    return Result(v, model=vals, tactic=tactic, secs=time.time() - t0, note=note)
