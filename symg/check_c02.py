"""C02 - each party can run the protocol from its own data and the messages it receives.
Three-view semantics on the real compile_context output: every party evaluates the whole
graph on what it holds (junk for everything else, own random tape), values cross only at
Send-annotated nodes.  Same real code as C01; the Send annotations placed by
generate_prf_key_triple, share_node, reshare, reveal_output, B2A key exchange are what is
decided here."""
import random
import time

import z3

from . import drv, vals, solve, validate, mpc_common as mc, progs_mpc, check_c01
from .cctypes import T
from .common import Check, pool_map, safe_analyze
from .interp import Interp, Unsupported, flat_elems, Arr, leaves


def symbols_env(terms, ints):
    return {t.get_id(): v for t, v in zip(terms, ints)}


def eval_value(v, env):
    """concrete nested ints of a value whose leaves are symbols/constants"""
    if isinstance(v, Arr):
        out = []
        for e in v.flat():
            if z3.is_bv_value(e):
                out.append(e.as_long())
            elif e.get_id() in env:
                out.append(env[e.get_id()])
            else:
                return None
        return out
    r = [eval_value(x, env) for x in v]
    return None if any(x is None for x in r) else r


@safe_analyze(lambda a: dict(id=a[0]["id"], status=None, queries=[], note="", cex=None, n_nodes=0, sends=0, witness_sat=0, witness_total=0))
def analyze(args):
    case, res, timeout_s = args
    out = dict(id=case["id"], status=None, queries=[], note="", cex=None, n_nodes=0, sends=0, witness_sat=0, witness_total=0)
    try:
        ctxs = res.get("contexts")
        if ctxs is None:
            out["status"] = "driver_fatal"
            out["note"] = str(res.get("fatal"))
            return out
        for i, c in enumerate(ctxs):
            if not c.get("ok"):
                out["status"] = "stage_error"
                out["note"] = c.get("error", "")
                out["panic"] = bool(c.get("panic"))
                return out
        idx = case["_idx"]
        S = ctxs[0]["dump"]
        F = ctxs[idx["F"]]["dump"]
        gF = F["graphs"][F["main"]]
        out["n_nodes"] = len(gF["nodes"])
        out["sends"] = sum(1 for n in gF["nodes"] for a in n.get("ann", []) if isinstance(a, dict) and "Send" in a)
        in_types = [T.from_json(j) for j in case["in_types"]]
        it = Interp(None, sym=True)
        xs = [it.fresh_value(t, "x%d" % i) for i, t in enumerate(in_types)]
        it.ctx = S
        s_vals = it.run_graph(S["main"], xs)
        s_out = s_vals[S["graphs"][S["main"]]["output"]]
        s_errors = list(it.errors)
        it.errors = []
        in3, shares, junk = mc.compiled_inputs_parties(it, in_types, case["owners"], xs)
        it.ctx = F
        pv = it.run_parties(F["main"], in3)
        oid = gF["output"]
        pre = list(it.assumptions)
        if s_errors:
            pre.append(z3.Not(z3.Or(*s_errors)))
        # terms whose model values are needed for the three-party replay
        want = []  # (kind, key, value)
        for k in range(len(in_types)):
            for p in range(3):
                want.append(("in", (k, p), in3[k][p]))
        for (where, who), v in it.rand_at.items():
            if who is not None:
                want.append(("rand", (where, who), v))
        for i, x in enumerate(xs):
            want.append(("plain", i, x))
        sym_terms = []
        for _, _, v in want:
            sym_terms.extend(flat_elems(v))
        queries = []  # (name, bad formula)
        outs = case["outs"]
        if outs:
            for p in outs:
                pairs = mc.eq_pairs(pv[p][oid], s_out)
                if pairs is None:
                    out["status"] = "sat_shape"
                    return out
                g = solve.neq_goal(pairs)
                queries.append(("party%d_output" % p, g if g is not None else z3.BoolVal(False)))
        else:
            o = [pv[p][oid] for p in range(3)]
            if any((not isinstance(x, list)) or len(x) != 3 for x in o):
                out["status"] = "sat_shape"
                return out
            for p in range(3):
                q = (p + 1) % 3
                pairs = mc.eq_pairs(o[p][q], o[q][q])
                g = solve.neq_goal(pairs)
                queries.append(("party%d_slot%d_agrees_with_owner" % (p, q), g if g is not None else z3.BoolVal(False)))
            total = mc.sum3(it, [o[0][0], o[1][1], o[2][2]])
            g = solve.neq_goal(mc.eq_pairs(total, s_out))
            queries.append(("own_slots_reconstruct", g if g is not None else z3.BoolVal(False)))
        status = "unsat"
        for name, bad in queries:
            r = solve.check_sat_forked(bad, pre, model_terms=sym_terms, timeout_s=timeout_s, kind=case.get("kind", "ring"))
            out["queries"].append(dict(name=name, verdict=r.verdict, tactic=r.tactic, secs=round(r.secs, 3), note=r.note))
            if r.verdict == "sat" and r.model is not None:
                status = "sat"
                pos = [0]
                got = {}
                for kind, key, v in want:
                    got[(kind, key)] = mc.nest_like(v, r.model, pos)
                inputs = []
                for k, t in enumerate(in_types):
                    ct = T.tuple([t, t, t]) if case["owners"][k] == "shared" else t
                    inputs.append([vals.enc(ct, got[("in", (k, p))]) for p in range(3)])
                ovr = [{}, {}, {}]
                for kind, key, v in want:
                    if kind == "rand":
                        where, who = key
                        ovr[who]["%d:%d" % (where[-2], where[-1])] = vals.enc(mc.value_type(v), got[(kind, key)])
                out["cex"] = dict(query=name, inputs3=inputs, overrides=ovr, plain=[got[("plain", i)] for i in range(len(xs))])
                break
            if r.verdict != "unsat":
                status = "unknown"
                out["note"] = "%s: %s" % (name, r.note)
                break
        out["status"] = status
        # built-in vacuity witness: a non-recipient must NOT be able to compute a private result
        if status == "unsat" and outs and case.get("witness_nonrecipient") and len(outs) < 3:
            for p in range(3):
                if p in outs:
                    continue
                out["witness_total"] += 1
                pairs = mc.eq_pairs(pv[p][oid], s_out)
                g = solve.neq_goal(pairs) if pairs is not None else z3.BoolVal(True)
                if g is None:
                    continue
                r = solve.check_sat_forked(g, pre, timeout_s=20, kind="ring")
                if r.verdict == "sat":
                    out["witness_sat"] += 1
    except Unsupported as e:
        out["status"] = "unsupported"
        out["note"] = str(e)
    return out


def replay_job(case, cex):
    in_types = [T.from_json(j) for j in case["in_types"]]
    stages, idx = mc.mpc_stages(case["owners"], case["outs"], case["mode"])
    return dict(id=case["id"], ctx=case["prog"], stages=stages, dump=[0, idx["F"]],
                party_evals=[dict(ctx=idx["F"], inputs=cex["inputs3"], overrides=cex["overrides"])],
                evals=[dict(ctx=0, inputs=[vals.enc(t, d) for t, d in zip(in_types, cex["plain"])])])


def judge_replay(case, cex, rr):
    from .cctypes import st_bits
    evS = rr["evals"][0]
    pe = rr["party_evals"][0]
    S = rr["contexts"][0]["dump"]
    gs = S["graphs"][S["main"]]
    ot = T.from_json(gs["nodes"][gs["output"]]["type"])
    if not evS.get("ok"):
        return False, "source evaluation failed"
    so = vals.dec(ot, evS["output"])
    parties = pe.get("parties")
    if parties is None:
        return False, "party executor failed: %s" % pe.get("error")
    if case["outs"]:
        for p in case["outs"]:
            if parties[p]["error"]:
                return True, "party %d cannot evaluate: %s" % (p, parties[p]["error"])
            po = vals.dec(ot, parties[p]["output"])
            if po != so:
                return True, "output party %d ends with %s, source result is %s" % (p, po, so)
        return False, "all output parties obtain %s" % (so,)
    t3 = T.tuple([ot, ot, ot])
    o = []
    for p in range(3):
        if parties[p]["error"]:
            return True, "party %d cannot evaluate: %s" % (p, parties[p]["error"])
        o.append(vals.dec(t3, parties[p]["output"]))
    for p in range(3):
        q = (p + 1) % 3
        if o[p][q] != o[q][q]:
            return True, "party %d's copy of share %d (%s) differs from party %d's (%s)" % (p, q, o[p][q], q, o[q][q])

    def add(t, a, b):
        if t.is_arr():
            m = 1 << st_bits(t.st)
            return [(x + y) % m for x, y in zip(a, b)]
        return [add(c, x, y) for c, x, y in zip(t.children(), a, b)]
    tot = add(ot, add(ot, o[0][0], o[1][1]), o[2][2])
    if tot != so:
        return True, "shares held by their owners reconstruct %s, source result is %s" % (tot, so)
    return False, "shares consistent and reconstruct %s" % (so,)


def main():
    chk = Check("C02", "translation_validation")
    chk.module = "symg.check_c02"
    cases = progs_mpc.gen_cases(chk.tier, chk.seed, purpose="c02")
    for i, c in enumerate(cases):
        c["n_evals"] = 0
        if i % 7 == 0:
            c["witness_nonrecipient"] = True
    timeout_s = 60 if chk.tier == "quick" else 300
    drv.build()
    jobs = [check_c01.build_job(c) for c in cases]
    results = drv.run_jobs(jobs)
    narrow = [i for i, c in enumerate(cases) if c["st"] in ("i8", "u8", "bit")]
    wide = [i for i in range(len(cases)) if i not in set(narrow)]
    outs = [None] * len(cases)
    for i, o in zip(narrow, pool_map(analyze, [(cases[i], results[i], timeout_s) for i in narrow])):
        outs[i] = o
    refuted = {cases[i]["template"] for i in narrow if outs[i]["status"] == "sat"}
    wide_run = [i for i in wide if cases[i]["template"] not in refuted]
    for i, o in zip(wide_run, pool_map(analyze, [(cases[i], results[i], timeout_s) for i in wide_run])):
        outs[i] = o
    replay = []
    twin_ok = {}
    for c, o in zip(cases, outs):
        if o is not None and c["st"] in ("i8", "u8", "bit"):
            twin_ok[c["template"]] = twin_ok.get(c["template"], True) and o["status"] == "unsat"
    for c, o in zip(cases, outs):
        if o is None:
            chk.count("skipped_refuted_template")
            continue
        chk.count("programs")
        chk.count("status_" + str(o["status"]))
        chk.count("send_nodes", o["sends"])
        chk.count("nonrecipient_witness_sat", o["witness_sat"])
        chk.count("nonrecipient_witness_total", o["witness_total"])
        for q in o["queries"]:
            chk.count("queries")
            chk.count("tactic_%s" % q["tactic"])
            chk.solver_secs += q["secs"]
        if o["status"] == "unsat":
            chk.sample(dict(case=c["id"], owners=c["owners"], outs=c["outs"], mode=c["mode"], compiled_nodes=o["n_nodes"], sends=o["sends"],
                            queries=[(q["name"], q["verdict"], q["secs"]) for q in o["queries"]]))
        elif o["status"] == "sat":
            replay.append((c, o))
        elif o["status"] == "stage_error" and not o.get("panic") and c.get("may_reject"):
            chk.count("rejected_by_compiler")
        elif o["status"] == "unknown" and c["st"] not in ("i8", "u8", "bit") and twin_ok.get(c["template"]):
            chk.count("not_decided_wide_instances")
            print("NOT-DECIDED: %s (solver gave no answer at %s; the 8-bit instances of this template are unsat) - not part of the claim" % (c["id"], c["st"]))
        else:
            chk.inconc("%s: %s %s %s" % (c["id"], o["status"], o["note"][:300], str(o["queries"][-1:])[:300]))
    if replay:
        rj = [replay_job(c, o["cex"]) for c, o in replay]
        rres = drv.run_jobs(rj)
        for (c, o), j, rr in zip(replay, rj, rres):
            chk.count("models_replayed")
            try:
                confirmed, why = judge_replay(c, o["cex"], rr)
            except Exception as e:  # noqa
                confirmed, why = False, "replay failed: %r" % (e,)
            if confirmed:
                chk.violation("%s|%s|%s|%s" % (c["template"], c["owners"], c["outs"], c["mode"]),
                              "%s owners=%s outs=%s mode=%s query=%s plaintext inputs=%s: %s" % (c["id"], c["owners"], c["outs"], c["mode"], o["cex"]["query"], o["cex"]["plain"], why),
                              dict(kind="c02", module="symg.check_c02", case={k: v for k, v in c.items() if not k.startswith("_")}, cex=o["cex"], job=j))
            else:
                chk.inconc("%s: solver model did not reproduce in the three-party executor (%s)" % (c["id"], why))
    if chk.counts.get("nonrecipient_witness_total", 0) and chk.counts.get("nonrecipient_witness_sat", 0) == 0:
        chk.inconc("vacuity: no non-recipient query came back sat")
    chk.functions = ["mpc::mpc_compiler::{compile_context, generate_prf_key_triple, share_node, share_all_inputs, reveal_output, compile_to_mpc_context}",
                     "mpc::resharing::reshare", "mpc::mpc_arithmetic::*MPC::instantiate", "optimizer::optimize::optimize_context (must keep Send markers)"]
    chk.bounds = progs_mpc.bounds(chk.tier)
    chk.outside = progs_mpc.OUTSIDE + ["join-internal zero_pad_column/share_column sites (join not applicable)"]
    chk.assumptions = ["execution model: each party evaluates every node locally; a node annotated Send(s,r) gives r the value s holds for its dependency",
                       "junk (non-owned inputs, unseen share slot) and the three random tapes are universally quantified",
                       "PRF idealised per key term: two parties get the same PRF value iff their views of the key are the same term"]
    templates = {c["template"] for c in cases}
    chk.finish(dict(programs=len(cases), disagreements_checked=chk.counts.get("models_replayed", 0),
                    evaluations=len(cases), distinct_nontrivial=len(templates),
                    rule="program = (source template, scalar type, owner vector, output set, inline mode); distinct = distinct templates",
                    explanation="three-view symbolic execution of the real compile_context output: for every output party p, view_p(output) = source(x) for all inputs, junk and tapes; "
                                "for shared outputs neighbour consistency and reconstruction; non-recipient queries must be sat (vacuity witness)"))


if __name__ == "__main__":
    main()
