"""Generic 'real generated graph vs bit-vector specification' check (C16, C17, C18 parts,
C08 meaning half).  A case is a program (DSL), pipeline stages, and a spec name; the spec
is a function (ins, out) -> (preconditions, bad) over z3 terms.  The same spec function is
evaluated on concrete constants when a solver model is replayed on the real evaluator."""
import random
import time

import z3

from . import drv, vals, solve, validate
from .cctypes import T
from .interp import Interp, Unsupported, input_types, flat_elems, Arr, shape_of, shape_of_type
from .common import pool_map, safe_analyze

SPECS = {}


def spec(name):
    def deco(f):
        SPECS[name] = f
        return f
    return deco


def build_job(case, n_evals=3):
    rng = random.Random(case.get("vseed", 0))
    in_types = [T.from_json(j) for j in case["in_types"]]
    last = len(case["stages"])
    evals = []
    for k in range(n_evals):
        ins = [vals.sample_value(t, rng, "boundary" if k < 2 else "random") for t in in_types]
        evals.append(dict(ctx=last, inputs=[vals.enc(t, d) for t, d in zip(in_types, ins)], _dec=ins))
    job = dict(id=case["id"], ctx=case["prog"], stages=case["stages"], dump=[last],
               evals=[{k: v for k, v in e.items() if k != "_dec"} for e in evals])
    case["_eval_inputs"] = [e["_dec"] for e in evals]
    return job


def sym_inputs(it, in_types):
    return [it.fresh_value(t, "x%d" % i) for i, t in enumerate(in_types)]


def extract_inputs(model, ins):
    def ex(v):
        if isinstance(v, Arr):
            return [model.eval(e, model_completion=True).as_long() for e in v.flat()]
        return [ex(x) for x in v]
    return [ex(v) for v in ins]


def rebuild_inputs(ints, ins):
    pos = [0]

    def ex(v):
        if isinstance(v, Arr):
            n = len(v.flat())
            r = ints[pos[0]:pos[0] + n]
            pos[0] += n
            return r
        return [ex(x) for x in v]
    return [ex(v) for v in ins]


@safe_analyze(lambda a: dict(id=a[0]["id"], status=None, queries=[], mism=[], cex=None, note="", secs=0.0, n_nodes=0, validated=0))
def analyze(args):
    case, res, timeout_s = args
    out = dict(id=case["id"], status=None, queries=[], mism=[], cex=None, note="", secs=0.0,
               n_nodes=0, validated=0)
    t0 = time.time()
    try:
        ctxs = res.get("contexts")
        if ctxs is None:
            out["status"] = "driver_fatal"
            out["note"] = str(res.get("fatal"))
            return out
        for i, c in enumerate(ctxs):
            if not c.get("ok"):
                out["status"] = "stage_error"
                out["stage"] = i
                out["note"] = c.get("error", "")
                out["panic"] = bool(c.get("panic"))
                return out
        ctx = ctxs[-1]["dump"]
        out["n_nodes"] = len(ctx["graphs"][ctx["main"]]["nodes"])
        # --- translator validation on concrete vectors
        for ev, ins in zip(res.get("evals", []), case["_eval_inputs"]):
            v = validate.validate(ctx, ev, ins)
            if v["ok"] is False:
                out["mism"].append(dict(inputs=ins, mismatches=v["mismatches"][:3]))
            elif v["ok"]:
                out["validated"] += 1
        if out["mism"]:
            out["status"] = "validation_mismatch"
            return out
        # --- symbolic
        it = Interp(ctx, sym=True)
        in_types = input_types(ctx)
        ins = sym_inputs(it, in_types)
        vs = it.run_graph(ctx["main"], ins)
        g = ctx["graphs"][ctx["main"]]
        o = vs[g["output"]]
        # shape audit: recorded type of every node == shape the independent semantics gives
        for nid, n in enumerate(g["nodes"]):
            if shape_of(vs[nid]) != shape_of_type(T.from_json(n["type"])):
                out["status"] = "shape_mismatch"
                out["note"] = "node %d %s: recorded %s, semantics %s" % (
                    nid, validate.op_name(n), n["type"], shape_of(vs[nid]))
                return out
        pre, bad = SPECS[case["spec"]](case, ins, o)
        errs = it.errors
        if errs:
            bad = z3.Or(bad, *errs)
        in_terms = []
        for v in ins:
            in_terms.extend(flat_elems(v))
        r = solve.check_sat_forked(bad, list(pre) + list(it.assumptions), model_terms=in_terms,
                                   timeout_s=timeout_s, kind=case.get("kind", "bits"))
        out["queries"].append(dict(verdict=r.verdict, tactic=r.tactic, secs=round(r.secs, 3), note=r.note))
        out["status"] = r.verdict
        if r.verdict == "sat" and r.model is not None:
            out["cex"] = rebuild_inputs(r.model, ins)
        elif r.verdict == "sat":
            out["status"] = "unknown"
            out["note"] = "sat without model (cvc5)"
    except Unsupported as e:
        out["status"] = "unsupported"
        out["note"] = str(e)
    out["secs"] = time.time() - t0
    return out


def concrete_spec_violated(case, ins_dec, out_val, out_type):
    """evaluate the spec on concrete values (z3 constant folding)"""
    it = Interp(None, sym=True)
    in_types = [T.from_json(j) for j in case["in_types"]]
    ins = [it.const_value(t, d) for t, d in zip(in_types, ins_dec)]
    od = vals.dec(out_type, out_val)
    if od is None:
        return True, "output layout does not match type"
    o = it.const_value(out_type, od)
    pre, bad = SPECS[case["spec"]](case, ins, o)
    f = z3.simplify(z3.And(*(list(pre) + [bad])))
    return z3.is_true(f), "spec formula on real output simplifies to %s; output=%s" % (f, od)


def run(check, cases, timeout_s=60, workers=None, n_evals=3):
    """runs all cases; fills check counters / violations / inconclusive."""
    drv.build()
    jobs = [build_job(c, n_evals) for c in cases]
    t0 = time.time()
    results = drv.run_jobs(jobs)
    check.count("driver_secs", int(time.time() - t0))
    outs = pool_map(analyze, [(c, r, timeout_s) for c, r in zip(cases, results)], workers)
    replay = []
    for c, o in zip(cases, outs):
        check.count("programs")
        check.count("status_" + str(o["status"]))
        check.count("validation_vectors", o["validated"])
        for q in o["queries"]:
            check.count("queries")
            check.count("tactic_%s" % q["tactic"])
            check.solver_secs += q["secs"]
        if c.get("witness"):
            if o["status"] == "sat":
                replay.append((c, o))
            else:
                check.inconc("%s: vacuity witness (deliberately wrong spec) was not refuted: %s" % (c["id"], o["status"]))
            continue
        if o["status"] == "unsat":
            check.sample(dict(case=c["id"], spec=c["spec"], nodes=o["n_nodes"], verdict="unsat",
                              tactic=o["queries"][0]["tactic"], secs=o["queries"][0]["secs"]))
        elif o["status"] == "sat":
            replay.append((c, o))
        elif o["status"] == "stage_error":
            h = check.on_stage_error(c, o) if hasattr(check, "on_stage_error") else None
            if h is None:
                if c.get("expect_reject"):
                    check.count("rejected_as_expected")
                else:
                    check.inconc("%s: stage %s failed: %s" % (c["id"], o.get("stage"), o["note"]))
        elif o["status"] == "validation_mismatch":
            h = check.on_mismatch(c, o) if hasattr(check, "on_mismatch") else None
            if h is None:
                if o["mism"] and not c.get("witness"):
                    # the real evaluator disagrees with the SMT semantics on a concrete vector: judge that vector against the
                    # independent concrete spec - a confirmed spec violation on the real evaluator is a violation of the property
                    o["cex"] = o["mism"][0]["inputs"]
                    o["from_validation"] = True
                    check.count("validation_mismatch_judged_by_spec")
                    replay.append((c, o))
                else:
                    check.inconc("%s: translator validation mismatch %s" % (c["id"], str(o["mism"][:1])[:300]))
        else:
            check.inconc("%s: %s %s %s" % (c["id"], o["status"], o["note"], o["queries"]))
    # --- replay solver models on the real evaluator
    if replay:
        rjobs = []
        for c, o in replay:
            in_types = [T.from_json(j) for j in c["in_types"]]
            last = len(c["stages"])
            rjobs.append(dict(id=c["id"], ctx=c["prog"], stages=c["stages"], dump=[last],
                              evals=[dict(ctx=last, inputs=[vals.enc(t, d) for t, d in zip(in_types, o["cex"])])]))
        rres = drv.run_jobs(rjobs)
        for (c, o), rj, rr in zip(replay, rjobs, rres):
            ev = rr["evals"][0]
            ctx = rr["contexts"][-1]["dump"]
            g = ctx["graphs"][ctx["main"]]
            ot = T.from_json(g["nodes"][g["output"]]["type"])
            if not ev.get("ok"):
                confirmed, why = True, "real evaluator failed: %s" % ev.get("error")
            else:
                confirmed, why = concrete_spec_violated(c, o["cex"], ev["output"], ot)
            check.count("models_replayed")
            if c.get("witness"):
                if confirmed:
                    check.count("vacuity_witnesses_hit")
                else:
                    check.inconc("%s: vacuity witness model did not reproduce (%s)" % (c["id"], why))
                continue
            if confirmed:
                check.violation(c.get("key", c["id"]),
                                "%s: spec %s violated on inputs %s: %s" % (c["id"], c["spec"], o["cex"], why),
                                dict(kind="speccheck", module=check.module, case={k: v for k, v in c.items() if not k.startswith("_")},
                                     inputs=o["cex"], job=rj))
            else:
                check.inconc("%s: %s (%s)" % (c["id"], "translator validation mismatch, but the real evaluator satisfies the spec on that vector" if o.get("from_validation") else "solver model did not reproduce on the real evaluator", why))
    return outs
