"""Translator validation: push concrete values through both the real evaluator (driver
'evals' trace, every node) and this interpreter, compare node by node."""
from .cctypes import T
from .interp import Interp, Unsupported
from . import vals

RANDOMISING = ("Random", "PRF", "PermutationFromPRF", "RandomPermutation")


def op_name(node):
    op = node["op"]
    return op if isinstance(op, str) else next(iter(op))


def validate(ctx, ev, inputs_dec):
    """ctx: context dump; ev: driver eval result; inputs_dec: nested ints per input.
    returns dict(ok=bool, mismatches=[...], compared=int, note=str)"""
    gid = ctx["main"]
    g = ctx["graphs"][gid]
    it = Interp(ctx, sym=False)
    trace = ev.get("nodes", {})
    given = {}
    types = [T.from_json(n["type"]) for n in g["nodes"]]
    for nid, n in enumerate(g["nodes"]):
        if op_name(n) in RANDOMISING:
            tv = trace.get(str(nid))
            if tv is None:
                continue
            d = vals.dec(types[nid], tv)
            if d is None:
                return dict(ok=False, compared=0, note="layout",
                            mismatches=[dict(node=nid, op=op_name(n), why="value layout does not match recorded type")])
            given[(gid, nid)] = it.const_value(types[nid], d)
    it.given = given
    in_types = [T.from_json(n["op"]["Input"]) for n in g["nodes"] if op_name(n) == "Input"]
    ins = [it.const_value(t, d) for t, d in zip(in_types, inputs_dec)]
    try:
        vs = it.run_graph(gid, ins)
    except Unsupported as e:
        return dict(ok=None, compared=0, mismatches=[], note="unsupported: %s" % e)
    except (ValueError, IndexError, AssertionError, KeyError, TypeError) as e:
        return dict(ok=False, compared=0, note="not evaluable",
                    mismatches=[dict(node=None, op="<graph>", why="graph is not evaluable under the documented semantics (operand shapes/types do not fit): %r" % (e,))])
    mism = []
    compared = 0
    for nid, n in enumerate(g["nodes"]):
        tv = trace.get(str(nid))
        if tv is None:
            continue
        real = vals.dec(types[nid], tv)
        mine = vals.from_interp_value(vs[nid])
        compared += 1
        if real is None:
            mism.append(dict(node=nid, op=op_name(n), why="real value layout does not match recorded type"))
        elif real != mine:
            mism.append(dict(node=nid, op=op_name(n), type=repr(types[nid]), real=real, spec=mine,
                             deps=n["deps"]))
        elif vals.stray_bits(types[nid], tv):
            mism.append(dict(node=nid, op=op_name(n), why="stray padding bits"))
    err_expected = any(bool(e) for e in it.errors)
    if ev.get("ok") is False and not ev.get("panic") and not err_expected and not mism:
        # real evaluator returned a runtime error the specification does not predict
        mism.append(dict(node=None, op="<graph>", why="unexpected runtime error: %s" % ev.get("error")))
    if ev.get("ok") is True and err_expected:
        mism.append(dict(node=None, op="<graph>", why="specification predicts a runtime error, evaluator returned a value"))
    if ev.get("panic"):
        mism.append(dict(node=None, op="<graph>", why="PANIC in evaluator"))
    if ev.get("check_type_ok") is False:
        mism.append(dict(node=ev.get("check_type_bad"), op="<check_type>", why="Value::check_type(node type) failed"))
    return dict(ok=not mism, mismatches=mism, compared=compared, note="")
