"""C01 - compiled protocol computes the same function as the source graph.
Real code encoded (run natively to build the protocol term DAG): mpc::mpc_compiler::{compile_context,
prepare_context, prepare_for_mpc_evaluation, compile_to_mpc_graph, propagate_private_annotations,
share_all_inputs, reveal_output, uniquify_prf_id}, mpc::resharing::*, mpc::mpc_arithmetic::*MPC::instantiate,
mpc::mpc_conversion::*, custom_ops::run_instantiation_pass, inline::inline_ops::inline_operations,
optimizer::optimize::optimize_context."""
import random
import sys
import time

import z3

from . import drv, vals, solve, validate, gen, mpc_common as mc, progs_mpc
from .cctypes import T
from .common import Check, pool_map, safe_analyze
from .interp import Interp, Unsupported, input_types, flat_elems, shape_of, shape_of_type


def build_job(case):
    rng = random.Random(case["vseed"])
    in_types = [T.from_json(j) for j in case["in_types"]]
    stages, idx = mc.mpc_stages(case["owners"], case["outs"], case["mode"], staged=case.get("staged", False))
    case["_idx"] = idx
    evals = []
    case["_eval_plain"] = []
    case["_eval_comp"] = []
    for k in range(case.get("n_evals", 2)):
        xs = [vals.sample_value(t, rng, "boundary" if k == 0 else "random") for t in in_types]
        ctypes, cdecs = mc.concrete_compiled_inputs(in_types, case["owners"], xs, rng)
        evals.append(dict(ctx=idx["F"], inputs=[vals.enc(t, d) for t, d in zip(ctypes, cdecs)]))
        evals.append(dict(ctx=0 if case.get("ref", "S") == "S" else idx.get("P", 0), inputs=[vals.enc(t, d) for t, d in zip(in_types, xs)]))
        case["_eval_plain"].append(xs)
        case["_eval_comp"].append(cdecs)
    dump = sorted(set([0, idx["F"]] + ([idx["U"], idx["P"]] if "U" in idx else [])))
    job = dict(id=case["id"], ctx=case["prog"], stages=stages, dump=dump, evals=evals)
    if "Fp" in idx:
        job["deep_equal"] = [[idx["Fp"], idx["F"]]]
    return job


def compare_outputs(it, case, f_out, s_out):
    """pairs to be equal, or None if shapes disagree"""
    if case["outs"]:
        return mc.eq_pairs(f_out, s_out)
    if not isinstance(f_out, list) or len(f_out) != 3:
        return None
    return mc.eq_pairs(mc.sum3(it, f_out), s_out)


@safe_analyze(lambda a: dict(id=a[0]["id"], status=None, queries=[], note="", cex=None, n_nodes=0, validated=0, mism=[]))
def analyze(args):
    case, res, timeout_s = args
    out = dict(id=case["id"], status=None, queries=[], note="", cex=None, n_nodes=0, validated=0, mism=[])
    try:
        ctxs = res.get("contexts")
        if ctxs is None:
            out["status"] = "driver_fatal"
            out["note"] = str(res.get("fatal"))
            return out
        for i, c in enumerate(ctxs):
            if not c.get("ok"):
                out["status"] = "stage_error"
                out["stage"] = i
                out["note"] = c.get("error", "")
                out["panic"] = bool(c.get("panic"))
                return out
        idx = case["_idx"]
        S = ctxs[0]["dump"]
        F = ctxs[idx["F"]]["dump"]
        out["n_nodes"] = len(F["graphs"][F["main"]]["nodes"])
        if res.get("deep_equal") and res["deep_equal"][0] is False:
            out["status"] = "staging_drift"
            out["note"] = "optimize_context(prepare_for_mpc_evaluation(prepare_context(S))) is not deep-equal to compile_context(S)"
            return out
        in_types = [T.from_json(j) for j in case["in_types"]]
        # --- translator validation: real evaluator vs this interpreter on F and on S
        evs = res.get("evals", [])
        for k in range(len(evs) // 2):
            evF, evS = evs[2 * k], evs[2 * k + 1]
            vF = validate.validate(F, evF, case["_eval_comp"][k])
            vS = validate.validate(S, evS, case["_eval_plain"][k])
            for v, nm in ((vF, "F"), (vS, "S")):
                if v["ok"] is False:
                    out["mism"].append(dict(graph=nm, inputs=case["_eval_plain"][k], mismatches=v["mismatches"][:3]))
                elif v["ok"]:
                    out["validated"] += 1
        if out["mism"]:
            out["status"] = "validation_mismatch"
            return out
        # --- concrete differential on the same vectors: real evaluator on F vs real evaluator on S
        for k in range(len(evs) // 2):
            evF, evS = evs[2 * k], evs[2 * k + 1]
            try:
                bad_c, why_c = judge_replay(case, dict(evals=[evF, evS], contexts=[dict(dump=S)]))
            except Exception as e:  # noqa
                bad_c, why_c = False, ""
            if bad_c:
                out["status"] = "concrete_diff"
                out["note"] = why_c
                out["cex"] = dict(concrete=True, plain=case["_eval_plain"][k], compiled=case["_eval_comp"][k])
                return out
        if case.get("concrete_only"):
            out["status"] = "concrete_ok"
            out["validated"] = len(evs) // 2
            return out
        # --- symbolic
        it = Interp(None, sym=True)
        xs = [it.fresh_value(t, "x%d" % i) for i, t in enumerate(in_types)]
        it.ctx = S
        s_vals = it.run_graph(S["main"], xs)
        s_out = s_vals[S["graphs"][S["main"]]["output"]]
        s_errors = list(it.errors)
        it.errors = []
        cin, shares = mc.compiled_inputs_global(it, in_types, case["owners"], xs)
        it.ctx = F
        f_vals = it.run_graph(F["main"], cin)
        gF = F["graphs"][F["main"]]
        f_out = f_vals[gF["output"]]
        for nid, n in enumerate(gF["nodes"]):
            if shape_of(f_vals[nid]) != shape_of_type(T.from_json(n["type"])):
                out["status"] = "shape_mismatch"
                out["note"] = "F node %d %s: recorded %s, semantics %s" % (nid, validate.op_name(n), n["type"], shape_of(f_vals[nid]))
                return out
        pairs = compare_outputs(it, case, f_out, s_out)
        if pairs is None:
            out["status"] = "sat_shape"
            out["note"] = "compiled output has a different layout than the source output"
            return out
        goal = solve.neq_goal(pairs)
        bad = goal if goal is not None else z3.BoolVal(False)
        # the compiled graph may only fail where the source fails
        if it.errors:
            src_ok = z3.Not(z3.Or(*s_errors)) if s_errors else z3.BoolVal(True)
            bad = z3.Or(bad, z3.And(src_ok, z3.Or(*it.errors)))
        pre = list(it.assumptions)
        if s_errors:
            pre.append(z3.Not(z3.Or(*s_errors)))
        rterms, rindex = mc.rand_terms(it)
        in_terms = []
        for v in cin:
            in_terms.extend(flat_elems(v))
        r = solve.check_sat_forked(bad, pre, model_terms=in_terms + rterms, timeout_s=timeout_s, kind=case.get("kind", "ring"))
        out["queries"].append(dict(verdict=r.verdict, tactic=r.tactic, secs=round(r.secs, 3), note=r.note))
        out["status"] = r.verdict
        if r.verdict == "sat":
            if r.model is None:
                out["status"] = "unknown"
                out["note"] = "sat without model"
            else:
                pos = [0]
                cex_in = [mc.nest_like(v, r.model, pos) for v in cin]
                ovr = {}
                for where, who, n, v in rindex:
                    d = mc.nest_like(v, r.model, pos)
                    ovr["%d:%d" % (where[-2], where[-1])] = vals.enc(mc.value_type(v), d)
                out["cex"] = dict(inputs=cex_in, overrides=ovr)
    except Unsupported as e:
        out["status"] = "unsupported"
        out["note"] = str(e)
    return out


def replay_job(case, cex):
    in_types = [T.from_json(j) for j in case["in_types"]]
    stages, idx = mc.mpc_stages(case["owners"], case["outs"], case["mode"], staged=case.get("staged", False))
    ctypes = [T.tuple([t, t, t]) if o == "shared" else t for t, o in zip(in_types, case["owners"])]
    plain = mc.plain_from_compiled(in_types, case["owners"], cex["inputs"])
    return dict(id=case["id"], ctx=case["prog"], stages=stages, dump=[0, idx["F"]],
                evals=[dict(ctx=idx["F"], inputs=[vals.enc(t, d) for t, d in zip(ctypes, cex["inputs"])], overrides=cex["overrides"]),
                       dict(ctx=0, inputs=[vals.enc(t, d) for t, d in zip(in_types, plain)])]), plain


def judge_replay(case, rr):
    """compare the real evaluator's compiled output with the real evaluator's source output"""
    from .cctypes import st_bits
    evF, evS = rr["evals"]
    S = rr["contexts"][0]["dump"]
    gs = S["graphs"][S["main"]]
    ot = T.from_json(gs["nodes"][gs["output"]]["type"])
    if not evS.get("ok"):
        return False, "source evaluation failed: %s" % evS.get("error")
    if not evF.get("ok"):
        return True, "compiled graph failed (%s) where the source graph evaluates" % evF.get("error")
    so = vals.dec(ot, evS["output"])
    if case["outs"]:
        fo = vals.dec(ot, evF["output"])
    else:
        f3 = vals.dec(T.tuple([ot, ot, ot]), evF["output"])
        if f3 is None:
            return True, "compiled output is not a triple of shares of the source type"

        def add(t, a, b):
            if t.is_arr():
                m = 1 << st_bits(t.st)
                return [(p + q) % m for p, q in zip(a, b)]
            return [add(c, p, q) for c, p, q in zip(t.children(), a, b)]
        fo = add(ot, add(ot, f3[0], f3[1]), f3[2])
    if fo != so:
        return True, "compiled result %s != source result %s" % (fo, so)
    return False, "compiled result equals source result %s" % (so,)


def run(chk, cases, timeout_s):
    drv.build()
    jobs = [build_job(c) for c in cases]
    t0 = time.time()
    results = drv.run_jobs(jobs)
    chk.count("driver_secs", int(time.time() - t0))
    # phase 1: 8-bit and BIT instances (counterexamples are found quickly there); phase 2: wide
    # instances, skipping templates already refuted in phase 1
    narrow = [i for i, c in enumerate(cases) if c["st"] in ("i8", "u8", "bit") or c.get("witness")]
    wide = [i for i in range(len(cases)) if i not in set(narrow)]
    outs = [None] * len(cases)
    for i, o in zip(narrow, pool_map(analyze, [(cases[i], results[i], max(timeout_s, cases[i].get("timeout", 0))) for i in narrow])):
        outs[i] = o
    refuted = {cases[i]["template"] for i in narrow if outs[i]["status"] == "sat" and not cases[i].get("witness")}
    wide_run = [i for i in wide if cases[i]["template"] not in refuted]
    for i, o in zip(wide_run, pool_map(analyze, [(cases[i], results[i], timeout_s) for i in wide_run])):
        outs[i] = o
    for i in wide:
        if outs[i] is None:
            outs[i] = dict(id=cases[i]["id"], status="skipped_refuted_template", queries=[], note="", cex=None, n_nodes=0, validated=0, mism=[])
    replay = []
    twin_ok = {}
    for c, o in zip(cases, outs):
        if c["st"] in ("i8", "u8", "bit"):
            twin_ok[c["template"]] = twin_ok.get(c["template"], True) and o["status"] == "unsat"
    for c, o in zip(cases, outs):
        chk.count("programs")
        chk.count("status_" + str(o["status"]))
        chk.count("validation_vectors", o["validated"])
        chk.count("compiled_nodes", o["n_nodes"])
        for q in o["queries"]:
            chk.count("queries")
            chk.count("tactic_%s" % q["tactic"])
            chk.solver_secs += q["secs"]
        if c.get("witness"):
            if o["status"] == "sat":
                replay.append((c, o))
            else:
                chk.inconc("%s: vacuity witness not refuted: %s %s" % (c["id"], o["status"], o["note"]))
            continue
        if o["status"] == "unsat":
            chk.sample(dict(case=c["id"], owners=c["owners"], outs=c["outs"], mode=c["mode"], compiled_nodes=o["n_nodes"],
                            verdict="unsat", tactic=o["queries"][0]["tactic"], secs=o["queries"][0]["secs"]))
        elif o["status"] == "sat":
            replay.append((c, o))
        elif o["status"] == "skipped_refuted_template":
            pass
        elif o["status"] == "concrete_ok":
            chk.count("concrete_only_programs")
            chk.count("concrete_only_vectors", o["validated"])
        elif o["status"] == "concrete_diff":
            chk.violation(c.get("key", "concrete|%s|%s|%s|%s" % (c["template"], c["owners"], c["outs"], c["mode"])),
                          "%s owners=%s outs=%s mode=%s plaintext inputs=%s: real evaluator: %s" % (c["id"], c["owners"], c["outs"], c["mode"], o["cex"]["plain"], o["note"]),
                          dict(kind="c01_concrete", module="symg.check_c01", case={k: v for k, v in c.items() if not k.startswith("_")}, cex=o["cex"]))
        elif o["status"] == "stage_error" and not o.get("panic") and c.get("may_reject"):
            chk.count("rejected_by_compiler")
        elif o["status"] == "validation_mismatch":
            chk.count("validation_mismatch")
            chk.inconc("%s: translator validation mismatch (interpreter vs real evaluator) %s" % (c["id"], str(o["mism"][:1])[:400]))
        elif o["status"] == "unknown" and c["st"] not in ("i8", "u8", "bit") and twin_ok.get(c["template"]):
            chk.count("not_decided_wide_instances")
            print("NOT-DECIDED: %s (solver gave no answer at %s; the 8-bit instances of this template are unsat) - not part of the claim" % (c["id"], c["st"]))
        else:
            chk.inconc("%s: %s %s %s" % (c["id"], o["status"], o["note"][:300], str(o["queries"])[:300]))
    if replay:
        rj = [replay_job(c, o["cex"]) for c, o in replay]
        rres = drv.run_jobs([j for j, _ in rj])
        for (c, o), (j, plain), rr in zip(replay, rj, rres):
            chk.count("models_replayed")
            try:
                confirmed, why = judge_replay(c, rr)
            except Exception as e:  # noqa
                confirmed, why = False, "replay failed: %r" % (e,)
            if c.get("witness"):
                if confirmed:
                    chk.count("vacuity_witnesses_hit")
                else:
                    chk.inconc("%s: vacuity witness model did not reproduce: %s" % (c["id"], why))
                continue
            if confirmed:
                chk.violation(c.get("key", "%s|%s|%s|%s" % (c["template"], c["owners"], c["outs"], c["mode"])),
                              "%s owners=%s outs=%s mode=%s plaintext inputs=%s: %s" % (c["id"], c["owners"], c["outs"], c["mode"], plain, why),
                              dict(kind="c01", module="symg.check_c01", case={k: v for k, v in c.items() if not k.startswith("_")}, cex=o["cex"], job=j))
            else:
                chk.inconc("%s: solver model did not reproduce on the real evaluator (%s)" % (c["id"], why))
    return outs


def main():
    chk = Check("C01", "translation_validation")
    chk.module = "symg.check_c01"
    cases = progs_mpc.gen_cases(chk.tier, chk.seed, purpose="c01")
    chk.functions = ["mpc::mpc_compiler::compile_context (prepare_context, prepare_for_mpc_evaluation, compile_to_mpc_graph, propagate_private_annotations, "
                     "share_all_inputs, reveal_output, uniquify_prf_id)", "mpc::resharing::{get_nodes_to_reshare, reshare}",
                     "mpc::mpc_arithmetic::{AddMPC,SubtractMPC,MultiplyMPC,DotMPC,MatmulMPC,GemmMPC,MixedMultiplyMPC}::instantiate",
                     "mpc::mpc_conversion::{A2BMPC,B2AMPC}::instantiate", "custom_ops::run_instantiation_pass", "inline::inline_ops::inline_operations",
                     "optimizer::optimize::optimize_context"]
    chk.bounds = progs_mpc.bounds(chk.tier)
    chk.outside = progs_mpc.OUTSIDE
    chk.assumptions = ["PRF idealised: arbitrary outputs subject to (key term, iv, type) congruence; Random nodes are free variables (all tapes)",
                       "primitive-op semantics as documented; validated against the real SimpleEvaluator node by node on every source and compiled graph",
                       "programs are generated (families listed under bounds), inputs/sharings/tapes are decided by the solver"]
    outs = run(chk, cases, timeout_s=60 if chk.tier == "quick" else 300)
    templates = {c["template"] for c in cases if any(o != "public" for o in c["owners"])}
    chk.finish(dict(programs=len(cases), disagreements_checked=chk.counts.get("models_replayed", 0),
                    evaluations=len(cases), distinct_nontrivial=len(templates),
                    rule="a program = (source graph template, scalar type, owner vector, output parties, inline mode); distinct_nontrivial = number of distinct source templates "
                         "that occur with at least one non-public input (so that the compiled graph contains shared values)",
                    explanation="source graph S vs compile_context(S) as SMT terms over inputs, input sharings and every Random/PRF value; unsat of 'outputs differ' per program"))


if __name__ == "__main__":
    main()
