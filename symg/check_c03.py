"""C03 - a party's view reveals nothing beyond its own inputs and outputs (exact tier for
BIT-typed programs, bounded by the size of the unknown random tape).

Three-view semantics with idealised PRFs on the real compile_context output.  For an observer P
the view is: its inputs, its junk, its own Random draws, the PRF outputs under keys it holds and
every value delivered at a node annotated Send(., P).  The unknown tape u is every other random
symbol occurring in the view.  The tape is unrolled (2^|u| constant-folded copies of the view
terms) and the solver is asked for own inputs, known tape, two other-party input vectors with the
same output for P, and a view value v such that #{u : view = v} differs between the two: unsat =
identical view distributions for every admissible input pair."""
import itertools
import random

import z3

from . import drv, vals, solve, mpc_common as mc, check_c01
from .cctypes import T
from .common import Check, pool_map, safe_analyze
from .interp import Interp, Unsupported, flat_elems, Arr
from .prog import single_graph
from .validate import op_name

MAX_U = 12


def A(shape, st):
    return T.scalar(st) if shape == () else T.array(shape, st)


def templates():
    t = {}
    t["and"] = ([(), ()], lambda g, x: g.mul(x[0], x[1]))
    t["xor"] = ([(), ()], lambda g, x: g.add(x[0], x[1]))
    t["and_xor"] = ([(), (), ()], lambda g, x: g.add(g.mul(x[0], x[1]), x[2]))
    t["and_and"] = ([(), (), ()], lambda g, x: g.mul(g.mul(x[0], x[1]), x[2]))
    t["and_vec"] = ([(2,), (2,)], lambda g, x: g.mul(x[0], x[1]))
    t["maj"] = ([(), (), ()], lambda g, x: g.add(g.add(g.mul(x[0], x[1]), g.mul(x[1], x[2])), g.mul(x[0], x[2])))
    t["and_sum"] = ([(2,), (2,)], lambda g, x: g.sum(g.mul(x[0], x[1]), [0]))
    return t


def gen_cases(tier, seed):
    cases = []
    k = 0
    for name, (shapes, f) in templates().items():
        in_types = [A(s, "bit") for s in shapes]
        prog = single_graph(lambda g: f(g, [g.input(t) for t in in_types]))
        n = len(in_types)
        ovs = [list(o) for o in itertools.product([0, 1, 2, "public"], repeat=n) if len({x for x in o if x != "public"}) >= 2]
        outsets = [[0], [1], [2], [0, 1], [1, 2], []]
        rng = random.Random(seed * 31 + k)
        rng.shuffle(ovs)
        take = ovs[: (3 if tier == "quick" else 12)]
        for ov in take:
            for j in range(2 if tier == "quick" else 4):
                k += 1
                outs = outsets[(k + seed) % len(outsets)]
                mode = ["simple", "depth_default", "depth_extreme"][(k + seed) % 3]
                cases.append(dict(id="%s:%s:%s:%s" % (name, "".join(str(o)[0] for o in ov), "".join(map(str, outs)) or "-", mode), template=name, st="bit", prog=prog,
                                  in_types=[t.to_json() for t in in_types], owners=ov, outs=outs, mode=mode, vseed=k, n_evals=0, kind="bits"))
    return cases


def symbols_of(terms):
    seen, out = set(), []
    stack = list(terms)
    while stack:
        t = stack.pop()
        if t.get_id() in seen:
            continue
        seen.add(t.get_id())
        if z3.is_const(t) and t.decl().kind() == z3.Z3_OP_UNINTERPRETED:
            out.append(t)
        else:
            stack.extend(t.children())
    return out


@safe_analyze(lambda a: dict(id=a[0]["id"], status=None, observers=[], note="", cex=None))
def analyze(args):
    case, res, timeout_s = args
    out = dict(id=case["id"], status=None, observers=[], note="", cex=None)
    try:
        ctxs = res.get("contexts")
        if ctxs is None or not all(c.get("ok") for c in ctxs):
            out["status"] = "stage_error"
            out["note"] = str([c.get("error") for c in (ctxs or []) if not c.get("ok")][:1])
            return out
        idx = case["_idx"]
        S, F = ctxs[0]["dump"], ctxs[idx["F"]]["dump"]
        gF = F["graphs"][F["main"]]
        in_types = [T.from_json(j) for j in case["in_types"]]
        it = Interp(S, sym=True)
        xs = [it.fresh_value(t, "x%d" % i) for i, t in enumerate(in_types)]
        s_out = it.run_graph(S["main"], xs)[S["graphs"][S["main"]]["output"]]
        in3, shares, junk = mc.compiled_inputs_parties(it, in_types, case["owners"], xs)
        it.ctx = F
        pv = it.run_parties(F["main"], in3)
        sends = []
        for nid, n in enumerate(gF["nodes"]):
            for a in n.get("ann", []):
                if isinstance(a, dict) and "Send" in a:
                    sends.append((nid, int(a["Send"][0]), int(a["Send"][1])))
        status = "unsat"
        for P in range(3):
            ob = dict(P=P, U=0, verdict=None, secs=0.0, dropped_key_msgs=0, view_bits=0)
            # --- view terms
            view = []
            dropped = []
            for nid, s, r in sends:
                if r != P:
                    continue
                els = flat_elems(pv[P][nid])
                if all(z3.is_const(e) and e.decl().kind() == z3.Z3_OP_UNINTERPRETED and e.decl().name().startswith("R") for e in els):
                    dropped.extend(els)  # a bare random draw (PRF key hand-over)
                    ob["dropped_key_msgs"] += 1
                    continue
                view.extend(els)
            own_out = []
            if case["outs"]:
                if P in case["outs"]:
                    own_out = flat_elems(pv[P][gF["output"]])
            else:
                o = pv[P][gF["output"]]
                own_out = flat_elems(o[P]) + flat_elems(o[(P + 1) % 3])
            view_all = view + own_out
            ob["view_bits"] = len(view_all)
            # --- symbol classes
            known = set()
            for i, o in enumerate(case["owners"]):
                if o == "public" or o == P:
                    known.update(e.get_id() for e in flat_elems(xs[i]))
            for (i, p, j) in junk:
                if p == P:
                    known.update(e.get_id() for e in flat_elems(j))
            for (where, who), v in it.rand_at.items():
                if who == P:
                    known.update(e.get_id() for e in flat_elems(v))
            others = {}
            for i, o in enumerate(case["owners"]):
                if not (o == "public" or o == P):
                    for e in flat_elems(xs[i]):
                        others[e.get_id()] = e
            syms = symbols_of(view_all)
            dropped_ids = {e.get_id() for e in dropped}
            if any(s.get_id() in dropped_ids for s in syms):
                ob["verdict"] = "unknown"
                ob["note"] = "a handed-over random draw also occurs inside another message"
                status = "unknown"
                out["observers"].append(ob)
                continue
            U = [s for s in syms if s.get_id() not in known and s.get_id() not in others]
            ob["U"] = len(U)
            if any(u.size() != 1 for u in U):
                ob["verdict"] = "unknown"
                ob["note"] = "unknown tape symbol wider than one bit"
                status = "unknown"
                out["observers"].append(ob)
                continue
            if len(U) > MAX_U:
                ob["verdict"] = "outside"
                out["observers"].append(ob)
                status = status if status != "unsat" else "unsat"
                continue
            if not view_all:
                ob["verdict"] = "unsat"
                ob["note"] = "empty view"
                out["observers"].append(ob)
                continue
            # --- unroll the tape
            vsyms = [z3.BitVec("v%d_%d" % (P, i), e.size()) for i, e in enumerate(view_all)]
            oth = list(others.values())
            oth2 = [z3.BitVec(e.decl().name() + "'", e.size()) for e in oth]
            cw = len(U) + 1
            one, zero = z3.BitVecVal(1, cw), z3.BitVecVal(0, cw)
            cnt1, cnt2 = zero, zero
            for bits in itertools.product([0, 1], repeat=len(U)):
                sub = [(u, z3.BitVecVal(b, 1)) for u, b in zip(U, bits)]
                inst = [z3.substitute(e, *sub) if sub else e for e in view_all]
                m1 = z3.And(*[a == b for a, b in zip(inst, vsyms)])
                cnt1 = cnt1 + z3.If(m1, one, zero)
                inst2 = [z3.substitute(e, *[(a, b) for a, b in zip(oth, oth2)]) if oth else e for e in inst]
                m2 = z3.And(*[a == b for a, b in zip(inst2, vsyms)])
                cnt2 = cnt2 + z3.If(m2, one, zero)
            pre = list(it.assumptions)
            # admissible pairs: P's own output (function of the inputs) is the same
            if case["outs"] and P in case["outs"]:
                so = flat_elems(s_out)
                so2 = [z3.substitute(e, *[(a, b) for a, b in zip(oth, oth2)]) if oth else e for e in so]
                pre.extend(a == b for a, b in zip(so, so2))
            bad = cnt1 != cnt2
            known_syms = [s_ for s_ in syms if s_.get_id() in known]
            r = solve.check_sat_forked(bad, pre, model_terms=oth + oth2 + vsyms + known_syms, timeout_s=timeout_s, kind="bits")
            ob["verdict"] = r.verdict
            ob["secs"] = round(r.secs, 3)
            ob["tactic"] = r.tactic
            if r.verdict == "sat":
                status = "sat"
                if r.model is not None:
                    no = len(oth)
                    nv = len(vsyms)
                    env = {e.get_id(): v for e, v in zip(oth, r.model[:no])}
                    env2 = {e.get_id(): v for e, v in zip(oth, r.model[no:2 * no])}
                    kenv = {e.get_id(): v for e, v in zip(known_syms, r.model[2 * no + nv:])}
                    ob["cex"] = dict(others=[str(e) for e in oth], xo=r.model[:no], xo2=r.model[no:2 * no], view_value=r.model[2 * no:2 * no + nv])
                    # recipe for the native replay: concrete value of every symbol, the tape symbols enumerated
                    def val_of(v, envx, ubits):
                        outv = []
                        for e in flat_elems(v):
                            i = e.get_id()
                            if z3.is_bv_value(e):
                                outv.append(e.as_long())
                            elif i in envx:
                                outv.append(envx[i])
                            elif i in kenv:
                                outv.append(kenv[i])
                            elif i in ubits:
                                outv.append(ubits[i])
                            else:
                                outv.append(0)
                        return outv
                    view_nodes = [nid for nid, s_, r_ in sends if r_ == P and not all(
                        z3.is_const(e) and e.decl().kind() == z3.Z3_OP_UNINTERPRETED and e.decl().name().startswith("R") for e in flat_elems(pv[P][nid]))]
                    runs = []
                    if len(U) <= 10:
                        for which, envx in (("xo", env), ("xo2", env2)):
                            for bits in itertools.product([0, 1], repeat=len(U)):
                                ub = {u.get_id(): b for u, b in zip(U, bits)}
                                inputs3 = [[mc.nest_like(in3[k][p], val_of(in3[k][p], envx, ub), [0]) for p in range(3)] for k in range(len(in_types))]
                                ovr = [{}, {}, {}]
                                for (where, who), v in it.rand_at.items():
                                    if who is not None and len(where) == 2:
                                        ovr[who]["%d:%d" % where] = (mc.value_type(v).to_json(), mc.nest_like(v, val_of(v, envx, ub), [0]))
                                runs.append(dict(which=which, inputs3=inputs3, overrides=ovr))
                    ob["replay"] = dict(view_nodes=view_nodes, runs=runs, in_own_out=bool(own_out), P=P)
            elif r.verdict != "unsat" and status == "unsat":
                status = "unknown"
            out["observers"].append(ob)
        out["status"] = status
    except Unsupported as e:
        out["status"] = "unsupported"
        out["note"] = str(e)
    return out


def native_view_histograms(case, ob):
    """enumerate the unknown tape in the real three-party executor for both input vectors of the
    solver model and compare the histograms of the observer's view. returns (differ, text) or None"""
    rp = ob.get("replay")
    if not rp or not rp["runs"]:
        return None
    in_types = [T.from_json(j) for j in case["in_types"]]
    stages, idx = mc.mpc_stages(case["owners"], case["outs"], case["mode"])
    pes = []
    for r in rp["runs"]:
        inputs = [[vals.enc(in_types[k], r["inputs3"][k][p]) for p in range(3)] for k in range(len(in_types))]
        ovr = [{key: vals.enc(T.from_json(tj), d) for key, (tj, d) in o.items()} for o in r["overrides"]]
        pes.append(dict(ctx=idx["F"], inputs=inputs, overrides=ovr))
    rr = drv.run_job(dict(ctx=case["prog"], stages=stages, dump=[], party_evals=pes))
    hist = {"xo": {}, "xo2": {}}
    P = rp["P"]
    for r, pe in zip(rp["runs"], rr.get("party_evals", [])):
        parties = pe.get("parties")
        if not parties:
            return None
        rec = parties[P].get("received", {})
        view = tuple(str(rec.get(str(n))) for n in rp["view_nodes"]) + ((str(parties[P].get("output")),) if rp["in_own_out"] else ())
        hist[r["which"]][view] = hist[r["which"]].get(view, 0) + 1
    differ = hist["xo"] != hist["xo2"]
    return differ, "histogram for the first input vector %s ; for the second %s" % (sorted(hist["xo"].items())[:4], sorted(hist["xo2"].items())[:4])


def main():
    chk = Check("C03", "other")
    chk.module = "symg.check_c03"
    cases = gen_cases(chk.tier, chk.seed)
    drv.build()
    results = drv.run_jobs([check_c01.build_job(c) for c in cases])
    outs = pool_map(analyze, [(c, r, 120 if chk.tier == "quick" else 600) for c, r in zip(cases, results)])
    for c, o in zip(cases, outs):
        chk.count("programs")
        chk.count("status_" + str(o["status"]))
        for ob in o["observers"]:
            chk.count("observer_queries")
            chk.count("observer_" + str(ob["verdict"]))
            chk.count("tape_bits_unrolled", ob["U"] if ob["verdict"] in ("unsat", "sat") else 0)
            chk.solver_secs += ob.get("secs", 0.0)
            if ob["verdict"] == "sat":
                rep = native_view_histograms(c, ob)
                (ob.get("replay") or {}).pop("runs", None)
                chk.count("models_replayed")
                if rep is None:
                    chk.inconc("%s observer %d: solver model could not be replayed (unknown tape too large for enumeration)" % (c["id"], ob["P"]))
                    continue
                if not rep[0]:
                    chk.inconc("%s observer %d: the view histograms computed by the real three-party executor do not differ: %s" % (c["id"], ob["P"], rep[1][:300]))
                    continue
                ob["native"] = rep[1]
                chk.violation("view|%s|observer%d|outs=%s" % (c["template"], ob["P"], c["outs"]),
                              "%s owners=%s outs=%s: the view of party %d has different distributions for other-party inputs %s vs %s (same own output); view value %s" % (
                                  c["id"], c["owners"], c["outs"], ob["P"], (ob.get("cex") or {}).get("xo"), (ob.get("cex") or {}).get("xo2"), (ob.get("cex") or {}).get("view_value")),
                              dict(kind="c03", module="symg.check_c03", case={k: v for k, v in c.items() if not k.startswith("_")}, observer=ob))
        if o["status"] == "unsat":
            chk.sample(dict(case=c["id"], owners=c["owners"], outs=c["outs"], observers=[(ob["P"], ob["U"], ob["view_bits"], ob["verdict"], ob.get("secs")) for ob in o["observers"]]), cap=8)
        elif o["status"] not in ("sat",):
            chk.inconc("%s: %s %s %s" % (c["id"], o["status"], o["note"], [(ob["P"], ob["verdict"], ob.get("note")) for ob in o["observers"] if ob["verdict"] not in ("unsat", "outside")]))
    # ---- fresh-mask simulation tier (wide scalar types, conversion / truncation / mixed-multiply protocols)
    from . import c03_mask
    mcases = c03_mask.gen_cases(chk.tier, chk.seed)
    mresults = drv.run_jobs([check_c01.build_job(c) for c in mcases])
    mouts = pool_map(c03_mask.analyze, [(c, r, 60 if chk.tier == "quick" else 300) for c, r in zip(mcases, mresults)])
    for c, o in zip(mcases, mouts):
        chk.count("mask_programs")
        chk.count("mask_status_" + str(o["status"]))
        if o["status"] in ("stage_error", "unsupported", None):
            chk.inconc("%s: %s %s" % (c["id"], o["status"], o.get("note", "")[:200]))
        for ob in o["observers"]:
            chk.count("mask_observer_queries")
            chk.count("mask_observer_" + str(ob["verdict"]))
            chk.count("mask_messages", ob["messages"])
            chk.count("mask_messages_masked", ob["masked"])
            chk.count("mask_messages_determined_or_harmless", ob["harmless"] + ob.get("determined", 0))
            chk.count("mask_messages_justified_by_output", ob["justified_by_output"])
            chk.count("mask_solver_queries", ob["queries"])
            chk.solver_secs += ob.get("secs", 0.0)
            if ob["verdict"] == "sat":
                rep = c03_mask.native_distinguisher(c, ob)
                d = ob.get("distinguisher") or {}
                d.pop("runs", None)
                chk.count("models_replayed")
                if rep is None or not rep[0]:
                    chk.inconc("%s observer %d: distinguisher %s not confirmed by the real three-party executor: %s" % (c["id"], ob["P"], d, rep))
                    continue
                ob["native"] = rep[1]
                chk.violation("view-distinguisher|%s|observer%d|recipient=%s" % (c["template"], ob["P"], ob["P"] in c["outs"]),
                              "%s owners=%s outs=%s: party %d can compute from its view a value (node %s elem %s%s) that does not depend on the unknown randomness but differs for other-party inputs %s vs %s with the same own output; %s" % (
                                  c["id"], c["owners"], c["outs"], ob["P"], d.get("node1"), d.get("elem1"), "" if d.get("node2") is None else " %s node %s elem %s" % (d.get("kind"), d.get("node2"), d.get("elem2")),
                                  d.get("xo"), d.get("xo2"), rep[1]),
                              dict(kind="c03_mask", module="symg.check_c03", case={k: v for k, v in c.items() if not k.startswith("_")}, observer=ob))
        if o["status"] == "unsat":
            chk.sample(dict(case=c["id"], tier="mask", observers=[(ob["P"], ob["messages"], ob["masked"], ob["harmless"], ob.get("determined", 0), ob["justified_by_output"], ob["queries"]) for ob in o["observers"]]), cap=16)
    chk.functions = ["mpc::mpc_compiler::compile_context (share_node / recursively_generate_node_shares zero sharings, reveal_output)", "mpc::resharing::reshare", "mpc::mpc_arithmetic::MultiplyMPC (private_product)", "optimizer::optimize::optimize_context",
                     "mask tier: mpc::mpc_conversion::{A2BMPC, B2AMPC}", "mask tier: mpc::mpc_arithmetic::MixedMultiplyMPC + mpc::utils::select_node (oblivious transfer)", "mask tier: mpc::mpc_truncate::TruncateMPC2K"]
    chk.bounds = dict(programs="BIT-typed and/xor/and-xor/and-and/majority/vector-and/and-sum over scalar bits and bit[2]; owners with at least two distinct parties; 6 output sets rotated; 3 inline modes",
                      unknown_tape="<= %d bits per observer (unrolled exhaustively inside the query)" % MAX_U,
                      mask_tier="fresh-mask simulation (sufficient condition, DESIGN 11.6): 14 ring templates (quick; all in thorough) at u8 + i64 (thorough: u8,i32,u64,i128), A2B / B2A / A2B(x+y)->B2A / MixedMultiply / chain / shared-bit AND-XOR / Truncate 2^k / Truncate after product at u8 and one wide type; owner vectors over {0,1,2,public} with >= 1 private input, 7 output sets and 3 inline modes rotated; per observer: every delivered element must have a fresh uniform mask (solver: injectivity, joint injectivity for groups), be determined by the observer's data and justified messages (solver: 2-copy query) or, for a recipient, be determined by its output (solver: injectivity of the locally computed output); observers that are neither proved nor refuted are counted as mask_observer_undecided and are NOT part of the claim")
    chk.outside = ["wider scalar types beyond the mask tier's families; observers the mask tier leaves 'undecided' (counted)", "observers whose unknown tape exceeds %d bits (counted as 'outside', not as pass)" % MAX_U,
                   "inputs that are already secret-shared", "programs with data-dependent permutations (sort) and joins", "PRF key hand-over messages are dropped from the view (bare random draws, independent of everything else in the idealised-PRF model) - checked not to occur inside any other message"]
    chk.assumptions = ["PRF outputs idealised as independent uniform bits per (key term, counter, element); two parties get the same bit iff they hold the same key term",
                       "solver models are replayed: the unknown tape (<= 10 bits) is enumerated in the real three-party executor for both input vectors and the histograms of the observer's view are compared"]
    chk.finish(dict(explanation="exact view-distribution equality by unrolling the unknown tape inside one SMT query per (program, observer): cardinalities as bit-vector sums of indicator terms over 2^|u| constant-folded copies of the real compiled graph's view terms",
                    evaluations=len(cases) * 3, distinct_nontrivial=len({(c["template"], tuple(c["outs"])) for c in cases}),
                    rule="(program, owner vector, output set, mode) x observer; non-trivial = the observer receives at least one non-key message"))


if __name__ == "__main__":
    main()
