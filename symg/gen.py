"""Typed random program generator (DSL level).  Shapes are inferred with numpy on dummy
arrays; the real type inference (Graph::add_node) remains the judge: a program it rejects
is simply counted as rejected."""
import itertools
import random

import numpy as np

from .cctypes import T, st_bits
from .prog import CB

SHAPES = [(), (2,), (3,), (2, 2), (2, 3), (3, 2), (1, 2), (2, 1), (2, 1, 2), (1,), (2, 2, 2)]


def nelem(shape):
    n = 1
    for d in shape:
        n *= d
    return n


def arr_t(shape, st):
    return T.scalar(st) if shape == () else T.array(shape, st)


class RandProg:
    """grows one graph; self.vals = list of (node id, T)"""

    def __init__(self, rng, st, max_elems=8, allow=None):
        self.rng = rng
        self.st = st
        self.cb = CB()
        self.g = self.cb.graph()
        self.vals = []
        self.in_types = []
        self.max_elems = max_elems
        self.allow = allow
        self.ops_used = []

    # ---- helpers
    def add_val(self, nid, t):
        self.vals.append((nid, t))
        return (nid, t)

    def arrays(self, st=None, min_rank=0):
        return [(n, t) for n, t in self.vals if t.is_arr() and (st is None or t.st == st) and len(t.shape) >= min_rank]

    def new_input(self, t):
        nid = self.g.input(t)
        self.in_types.append(t)
        return self.add_val(nid, t)

    def rand_const(self, shape, st=None):
        st = st or self.st
        w = st_bits(st)
        t = arr_t(shape, st)
        dec = [str(self.rng.choice([0, 1, 2, 3, (1 << w) - 1, self.rng.getrandbits(w)]) % (1 << w)) for _ in range(nelem(shape))]
        if shape == ():
            dec = dec[0]
        return self.add_val(self.g.const(t, dec), t)

    def ok_size(self, shape):
        return nelem(shape) <= self.max_elems and all(d > 0 for d in shape) and len(shape) <= 3

    # ---- op constructors; each returns (nid, T) or None
    def op_elementwise(self):
        xs = self.arrays(self.st)
        if not xs:
            return None
        a = self.rng.choice(xs)
        cands = []
        for b in xs:
            try:
                s = np.broadcast_shapes(a[1].shape, b[1].shape)
            except ValueError:
                continue
            if self.ok_size(s):
                cands.append((b, s))
        if not cands:
            return None
        b, s = self.rng.choice(cands)
        if self.rng.random() < 0.5:
            a, b = b, a
        op = self.rng.choice(["add", "sub", "mul", "mul"])
        nid = getattr(self.g, op)(a[0], b[0])
        self.ops_used.append(op)
        return self.add_val(nid, arr_t(tuple(s), self.st))

    def op_contract(self):
        xs = self.arrays(self.st, min_rank=1)
        if not xs:
            return None
        kind = self.rng.choice(["dot", "matmul", "gemm"])
        self.rng.shuffle(xs)
        for a in xs[:6]:
            for b in xs[:6]:
                za, zb = np.zeros(a[1].shape), np.zeros(b[1].shape)
                try:
                    if kind == "dot":
                        s = np.dot(za, zb).shape
                        args = None
                    elif kind == "matmul":
                        s = np.matmul(za, zb).shape
                        args = None
                    else:
                        if za.ndim < 2 or zb.ndim < 2:
                            continue
                        ta, tb = self.rng.random() < 0.5, self.rng.random() < 0.5
                        s = np.matmul(np.swapaxes(za, -1, -2) if ta else za, np.swapaxes(zb, -1, -2) if tb else zb).shape
                        args = (ta, tb)
                except ValueError:
                    continue
                if not self.ok_size(s):
                    continue
                if kind == "gemm":
                    nid = self.g.gemm(a[0], b[0], *args)
                else:
                    nid = getattr(self.g, kind)(a[0], b[0])
                self.ops_used.append(kind)
                return self.add_val(nid, arr_t(tuple(s), self.st))
        return None

    def op_reduce(self):
        xs = self.arrays(min_rank=1)
        xs = [x for x in xs if x[1].st != "bit" or True]
        if not xs:
            return None
        a = self.rng.choice(xs)
        r = len(a[1].shape)
        if self.rng.random() < 0.5:
            k = self.rng.randint(0, r)
            axes = sorted(self.rng.sample(range(r), k))
            s = tuple(d for i, d in enumerate(a[1].shape) if i not in axes)
            nid = self.g.sum(a[0], axes)
            self.ops_used.append("sum")
        else:
            ax = self.rng.randrange(r)
            s = a[1].shape
            nid = self.g.cumsum(a[0], ax)
            self.ops_used.append("cumsum")
        return self.add_val(nid, arr_t(tuple(s), a[1].st))

    def op_structural(self):
        xs = self.arrays(min_rank=1)
        if not xs:
            return None
        a = self.rng.choice(xs)
        shape = a[1].shape
        r = len(shape)
        st = a[1].st
        kind = self.rng.choice(["permute", "get", "slice", "reshape", "stack", "concat"])
        if kind == "permute":
            perm = list(range(r))
            self.rng.shuffle(perm)
            s = tuple(shape[p] for p in perm)
            nid = self.g.permute_axes(a[0], perm)
        elif kind == "get":
            k = self.rng.randint(1, r)
            idx = [self.rng.randrange(shape[i]) for i in range(k)]
            s = shape[k:]
            nid = self.g.get(a[0], idx)
        elif kind == "slice":
            sl = []
            for i in range(r):
                c = self.rng.random()
                d = shape[i]
                if c < 0.25:
                    sl.append(self.rng.randrange(-d, d))
                elif c < 0.8:
                    start = self.rng.choice([None, 0, 1, -1, d - 1, -d])
                    stop = self.rng.choice([None, d, -1, 1, d + 3, -d - 1])
                    step = self.rng.choice([None, 1, 2, -1, -2])
                    sl.append((start, stop, step))
                else:
                    sl.append("...")
                    break
            idx = tuple(Ellipsis if s == "..." else (s if isinstance(s, int) else slice(*s)) for s in sl)
            try:
                s = np.zeros(shape)[idx].shape
            except IndexError:
                return None
            if nelem(s) == 0:
                return None
            nid = self.g.get_slice(a[0], sl)
        elif kind == "reshape":
            n = nelem(shape)
            opts = [s for s in SHAPES if s != () and nelem(s) == n and s != shape]
            if not opts:
                return None
            s = self.rng.choice(opts)
            nid = self.g.reshape(a[0], arr_t(s, st))
        elif kind == "stack":
            others = [b for b in self.arrays(st) if b[1].st == st]
            b = self.rng.choice(others)
            try:
                inner = np.broadcast_shapes(shape, b[1].shape)
            except ValueError:
                return None
            s = (2,) + tuple(inner)
            nid = self.g.stack([a[0], b[0]], [2])
        else:
            ax = self.rng.randrange(r)
            others = [b for b in self.arrays(st, 1) if len(b[1].shape) == r and all(b[1].shape[i] == shape[i] for i in range(r) if i != ax)]
            if not others:
                return None
            b = self.rng.choice(others)
            s = tuple(shape[i] + (b[1].shape[i] if i == ax else 0) for i in range(r))
            nid = self.g.concat([a[0], b[0]], ax)
        if not self.ok_size(s):
            return None
        self.ops_used.append(kind)
        return self.add_val(nid, arr_t(tuple(s), st))

    def op_container(self):
        kind = self.rng.choice(["tuple_rt", "vector_rt", "a2v_rt", "zip_rt", "repeat_rt", "ntuple_rt"])
        xs = self.arrays()
        if not xs:
            return None
        a = self.rng.choice(xs)
        if kind == "tuple_rt":
            b = self.rng.choice(xs)
            t = self.g.tuple([a[0], b[0]])
            i = self.rng.randrange(2)
            nid = self.g.tuple_get(t, i)
            rt = (a, b)[i][1]
        elif kind == "ntuple_rt":
            b = self.rng.choice(xs)
            t = self.g.ntuple([("p", a[0]), ("q", b[0])])
            i = self.rng.randrange(2)
            nid = self.g.ntuple_get(t, "pq"[i])
            rt = (a, b)[i][1]
        elif kind == "vector_rt":
            same = [b for b in xs if b[1] == a[1]]
            b = self.rng.choice(same)
            v = self.g.vector([a[0], b[0]], a[1])
            if self.rng.random() < 0.5 and self.ok_size((2,) + a[1].shape):
                nid = self.g.v2a(v)
                rt = arr_t((2,) + a[1].shape, a[1].st)
            else:
                i = self.rng.randrange(2)
                ci = self.g.const(T.scalar("u64"), str(i))
                nid = self.g.vector_get(v, ci)
                rt = a[1]
        elif kind == "a2v_rt":
            if len(a[1].shape) < 1:
                return None
            v = self.g.a2v(a[0])
            if self.rng.random() < 0.5:
                nid = self.g.v2a(v)
                rt = a[1]
            else:
                i = self.rng.randrange(a[1].shape[0])
                ci = self.g.const(T.scalar("u64"), str(i))
                nid = self.g.vector_get(v, ci)
                rt = arr_t(a[1].shape[1:], a[1].st)
        elif kind == "zip_rt":
            if len(a[1].shape) < 1:
                return None
            same = [b for b in xs if len(b[1].shape) >= 1 and b[1].shape[0] == a[1].shape[0]]
            b = self.rng.choice(same)
            z = self.g.zip([self.g.a2v(a[0]), self.g.a2v(b[0])])
            i = self.rng.randrange(a[1].shape[0])
            ci = self.g.const(T.scalar("u64"), str(i))
            e = self.g.vector_get(z, ci)
            j = self.rng.randrange(2)
            nid = self.g.tuple_get(e, j)
            rt = arr_t((a, b)[j][1].shape[1:], (a, b)[j][1].st)
        else:
            n = self.rng.choice([1, 2, 3])
            if not self.ok_size((n,) + a[1].shape):
                return None
            v = self.g.repeat(a[0], n)
            nid = self.g.v2a(v)
            rt = arr_t((n,) + a[1].shape, a[1].st)
        self.ops_used.append(kind)
        return self.add_val(nid, rt)

    def op_const(self):
        shape = self.rng.choice([s for s in SHAPES if nelem(s) <= 4])
        c = self.rng.random()
        if c < 0.6:
            self.ops_used.append("const")
            return self.rand_const(shape)
        t = arr_t(shape, self.st)
        self.ops_used.append("zeros_ones")
        return self.add_val(self.g.zeros(t) if c < 0.8 else self.g.ones(t), t)

    def grow(self, n_ops, weights=None):
        menu = [("elementwise", self.op_elementwise, 5), ("contract", self.op_contract, 2), ("reduce", self.op_reduce, 2),
                ("structural", self.op_structural, 3), ("container", self.op_container, 2), ("const", self.op_const, 1)]
        if self.allow is not None:
            menu = [m for m in menu if m[0] in self.allow]
        if weights:
            menu = [(n, f, weights.get(n, w)) for n, f, w in menu]
        tries = 0
        made = 0
        while made < n_ops and tries < n_ops * 12:
            tries += 1
            f = self.rng.choices([m[1] for m in menu], weights=[m[2] for m in menu])[0]
            r = f()
            if r is not None:
                made += 1
        return made

    def finish(self, out=None):
        """output: a node depending on recent work; prefer the last array value"""
        if out is None:
            out = self.vals[-1][0]
        self.g.set_output(out)
        return self.cb.to_json()


def owner_vectors(n):
    return list(itertools.product([0, 1, 2, "public", "shared"], repeat=n))


def output_sets(ordered=False):
    base = [[], [0], [1], [2], [0, 1], [0, 2], [1, 2], [0, 1, 2]]
    if ordered:
        base += [[1, 0], [2, 0], [2, 1], [2, 1, 0], [1, 2, 0]]
    return base


class OptProg(RandProg):
    """graphs that over-represent what the optimiser passes rewrite"""

    def __init__(self, rng, sts, max_elems=8):
        RandProg.__init__(self, rng, sts[0], max_elems)
        self.sts = sts
        self.has_random = False
        self.has_send = False

    def pick_st(self):
        self.st = self.rng.choice(self.sts)

    def op_a2b_b2a(self):
        xs = self.arrays()
        if not xs:
            return None
        a = self.rng.choice(xs)
        st = a[1].st
        if st != "bit":
            w = st_bits(st)
            if nelem(a[1].shape) * w > 64:
                return None
            b = self.g.a2b(a[0])
            bt = arr_t(a[1].shape + (w,), "bit")
            self.add_val(b, bt)
            # back, possibly to another type of the same width
            st2 = self.rng.choice([s for s in ["u8", "i8", "u16", "i16", "u32", "i32", "u64", "i64"] if st_bits(s) == w] or [st])
            if self.rng.random() < 0.7:
                st2 = st
            nid = self.g.b2a(b, st2)
            self.ops_used.append("a2b_b2a")
            return self.add_val(nid, arr_t(a[1].shape, st2))
        # bit array whose last dim is a scalar width: B2A then A2B
        if len(a[1].shape) >= 1 and a[1].shape[-1] in (8, 16):
            st2 = {8: "u8", 16: "i16"}[a[1].shape[-1]]
            x = self.g.b2a(a[0], st2)
            self.add_val(x, arr_t(a[1].shape[:-1], st2))
            nid = self.g.a2b(x)
            self.ops_used.append("b2a_a2b")
            return self.add_val(nid, a[1])
        return None

    def op_random(self):
        self.pick_st()
        shape = self.rng.choice([s for s in SHAPES if nelem(s) <= 4])
        t = arr_t(shape, self.st)
        self.has_random = True
        if self.rng.random() < 0.5:
            self.ops_used.append("random")
            return self.add_val(self.g.random(t), t)
        key = self.g.random(T.array((128,), "bit"))
        iv = self.rng.choice([0, 1, 1, 2])
        self.ops_used.append("prf")
        r = self.add_val(self.g.prf(key, iv, t), t)
        if self.rng.random() < 0.5:
            # a second PRF under the same key, same or different iv
            self.add_val(self.g.prf(key, self.rng.choice([iv, iv + 1]), t), t)
        return r

    def op_nop_send(self):
        xs = self.arrays()
        if not xs:
            return None
        a = self.rng.choice(xs)
        s = self.rng.randrange(3)
        r = self.rng.choice([p for p in range(3) if p != s])
        ann = [{"Send": [s, r]}] if self.rng.random() < 0.8 else None
        if ann:
            self.has_send = True
        self.ops_used.append("nop_send" if ann else "nop")
        first = self.add_val(self.g.nop(a[0], ann=ann), a[1])
        if self.rng.random() < 0.5:
            # a second NOP of the same node with a different (or no) marker; combine both so that
            # they stay live
            s2 = self.rng.randrange(3)
            r2 = self.rng.choice([p for p in range(3) if p != s2])
            ann2 = [{"Send": [s2, r2]}] if self.rng.random() < 0.6 else None
            if ann2 != ann:
                second = self.add_val(self.g.nop(a[0], ann=ann2), a[1])
                if ann2:
                    self.has_send = True
                self.ops_used.append("nop_pair")
                return self.add_val(self.g.add(first[0], second[0]), a[1])
        return first

    def op_dup(self):
        """re-emit an existing non-input node verbatim (same op, same deps)"""
        cands = [i for i, n in enumerate(self.g.nodes) if not (isinstance(n["op"], dict) and "Input" in n["op"])]
        if not cands:
            return None
        i = self.rng.choice(cands)
        n = self.g.nodes[i]
        t = None
        for nid, tt in self.vals:
            if nid == i:
                t = tt
        if t is None:
            return None
        nid = self.g.node(n["op"], n["deps"], ann=n.get("ann"))
        self.ops_used.append("dup")
        return self.add_val(nid, t)

    def grow_opt(self, n_ops):
        menu = [(self.op_elementwise, 5), (self.op_contract, 1), (self.op_reduce, 1), (self.op_structural, 3),
                (self.op_container, 5), (self.op_const, 4), (self.op_a2b_b2a, 2), (self.op_random, 2),
                (self.op_nop_send, 2), (self.op_dup, 3)]
        made = 0
        tries = 0
        while made < n_ops and tries < n_ops * 12:
            tries += 1
            self.pick_st()
            f = self.rng.choices([m[0] for m in menu], weights=[m[1] for m in menu])[0]
            if f() is not None:
                made += 1
        return made
