"""Build and run the Rust driver (which links the current /repo working tree)."""
import json
import os
import subprocess
import sys
import tempfile
import time
from concurrent.futures import ThreadPoolExecutor

VERIF = os.path.dirname(os.path.dirname(os.path.abspath(__file__)))
DRIVER_DIR = os.path.join(VERIF, "driver")
TARGET_DIR = os.path.join(VERIF, "target", "driver")
BIN = os.path.join(TARGET_DIR, "release", "verif-driver")
WORK = os.path.join(VERIF, "work")

_built = False


def build(quiet=True):
    """cargo build --release of the driver against /repo's current working tree."""
    global _built
    if _built:
        return
    env = dict(os.environ)
    env["CARGO_NET_OFFLINE"] = "true"
    env["CARGO_TARGET_DIR"] = TARGET_DIR
    t0 = time.time()
    # keep Cargo.lock in sync with the repo's (offline resolution)
    p = subprocess.run(
        ["cargo", "build", "--release", "--offline"],
        cwd=DRIVER_DIR, env=env, stdout=subprocess.PIPE, stderr=subprocess.STDOUT, text=True)
    if p.returncode != 0:
        sys.stderr.write(p.stdout[-8000:])
        raise RuntimeError("driver build failed (does /repo still compile?)")
    _built = True
    if not quiet:
        print("driver built in %.1fs" % (time.time() - t0))


def _run_chunk(jobs, idx):
    os.makedirs(WORK, exist_ok=True)
    fd, jin = tempfile.mkstemp(prefix="jobs%d_" % idx, suffix=".json", dir=WORK)
    os.close(fd)
    jout = jin.replace(".json", ".out.json")
    try:
        with open(jin, "w") as f:
            json.dump({"jobs": jobs}, f)
        p = subprocess.run([BIN, jin, jout], stdout=subprocess.PIPE, stderr=subprocess.PIPE, text=True)
        if p.returncode != 0 or not os.path.exists(jout):
            # fall back to one job per process so that an abort is attributed
            if len(jobs) == 1:
                return [{"fatal": "driver exit %d: %s" % (p.returncode, p.stderr[-2000:])}]
            out = []
            for j in jobs:
                out.extend(_run_chunk([j], idx))
            return out
        with open(jout) as f:
            return json.load(f)["results"]
    finally:
        for x in (jin, jout):
            if os.path.exists(x):
                os.unlink(x)


def run_jobs(jobs, workers=16, chunk=None):
    """returns results in job order"""
    build()
    if not jobs:
        return []
    if chunk is None:
        chunk = max(1, min(32, (len(jobs) + workers - 1) // workers))
    chunks = [jobs[i:i + chunk] for i in range(0, len(jobs), chunk)]
    with ThreadPoolExecutor(max_workers=workers) as ex:
        res = list(ex.map(lambda ic: _run_chunk(ic[1], ic[0]), enumerate(chunks)))
    out = []
    for r in res:
        out.extend(r)
    return out


def run_job(job):
    return run_jobs([job], workers=1)[0]
