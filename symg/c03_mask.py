"""C03, fresh-mask simulation tier (wide scalar types and the conversion / truncation / mixed-multiply
protocols, where the exact tape-counting tier cannot unroll the tape).

For an observer P the messages delivered to P (elements of every Send(., P) node of the real
compile_context output, in graph order) are e_1..e_k, terms over: P's own data K (inputs, junk, own
Random draws, PRF outputs under key terms P holds), the other parties' inputs X and the unknown tape U
(idealised independent uniform symbols: other parties' Random draws, PRF outputs under key terms P does
not hold).  Decided by the solver, per message:

 (1) masked: some u in U that occurs in no earlier message makes e_i injective in u for all values of
     everything else  (query: e_i[u:=a] = e_i[u:=b] /\ a != b  unsat).  By the triangular argument the
     masked messages are jointly uniform for every X (map (u_1..u_m) -> (e_1..e_m) is a bijection).
 (2) residual (no fresh mask): harmless if it mentions no symbol outside K, or is the very term of an
     earlier message; for an output recipient the residuals r are justified when P's own output, computed
     by P locally with every delivered value replaced by a fresh symbol, is injective in r jointly
     (query: G(K, mu, r) = G(K, mu, r') /\ r != r' unsat): then r = F(K, mu, y) and the whole view is a
     function of (K, uniform mu, y) - the same distribution for all X with the same output y.
 (3) any other residual is a leak candidate.  It becomes a VIOLATION only with a deterministic
     distinguisher D in {e_i, e_i -/+ e_j}: D independent of U (unsat) and dependent on X for equal own
     output (sat, concrete pair) - replayed in the real three-party executor under different tapes.
     Without a distinguisher the observer is 'undecided' (excluded from the claim, never an alarm)."""
import itertools
import random

import z3

from . import drv, vals, solve, mpc_common as mc
from .cctypes import T, st_bits
from .common import safe_analyze
from .interp import Interp, Unsupported, flat_elems, Arr
from .check_c03 import symbols_of

MAX_CAND = 4


def _uninterp(e):
    return z3.is_const(e) and e.decl().kind() == z3.Z3_OP_UNINTERPRETED


def _inj_query(e, t, tag):
    a = z3.BitVec("inj_a_%s" % tag, t.size())
    b = z3.BitVec("inj_b_%s" % tag, t.size())
    return z3.And(z3.substitute(e, (t, a)) == z3.substitute(e, (t, b)), a != b)


def _decide(formula, pre, timeout_s, kind, model_terms=None):
    f = z3.simplify(formula)
    if z3.is_false(f):
        return solve.Result("unsat", tactic="simplify")
    if not model_terms:
        # cheap in-process attempt (plain solver honours its timeout); only 'unsat' is taken from it
        import time as _t
        t0 = _t.time()
        try:
            s = z3.Solver()
            s.set("timeout", 2500)
            for a_ in pre:
                s.add(a_)
            s.add(formula)
            if s.check() == z3.unsat:
                return solve.Result("unsat", tactic="smt-inprocess", secs=_t.time() - t0)
        except z3.Z3Exception:
            pass
    return solve.check_sat_forked(formula, pre, model_terms=model_terms or [], timeout_s=timeout_s, kind=kind)


@safe_analyze(lambda a: dict(id=a[0]["id"], status=None, observers=[], note=""))
def analyze(args):
    case, res, timeout_s = args
    out = dict(id=case["id"], status=None, observers=[], note="")
    try:
        ctxs = res.get("contexts")
        if ctxs is None or not all(c.get("ok") for c in ctxs):
            out["status"] = "stage_error"
            out["note"] = str([c.get("error") for c in (ctxs or []) if not c.get("ok")][:1])
            return out
        idx = case["_idx"]
        S, F = ctxs[0]["dump"], ctxs[idx["F"]]["dump"]
        gF = F["graphs"][F["main"]]
        in_types = [T.from_json(j) for j in case["in_types"]]
        it = Interp(S, sym=True)
        xs = [it.fresh_value(t, "x%d" % i) for i, t in enumerate(in_types)]
        s_out = it.run_graph(S["main"], xs)[S["graphs"][S["main"]]["output"]]
        in3, shares, junk = mc.compiled_inputs_parties(it, in_types, case["owners"], xs)
        it.ctx = F
        pv = it.run_parties(F["main"], in3)
        if it.assumptions:
            out["status"] = "unsupported"
            out["note"] = "side conditions on random symbols (permutations)"
            return out
        sends = []
        for nid, n in enumerate(gF["nodes"]):
            for a in n.get("ann", []):
                if isinstance(a, dict) and "Send" in a:
                    sends.append((nid, int(a["Send"][0]), int(a["Send"][1])))
        kind = case.get("kind", "ring")
        all_rand = {}
        for (where, who), v in it.rand_at.items():
            for e in flat_elems(v):
                if _uninterp(e):
                    all_rand[e.get_id()] = e
        status = "unsat"
        for P in range(3):
            ob = dict(P=P, verdict=None, secs=0.0, messages=0, masked=0, masked_trivial=0, harmless=0, justified_by_output=0,
                      candidates=0, queries=0, note="")
            known = set()
            for i, o in enumerate(case["owners"]):
                if o == "public" or o == P:
                    known.update(e.get_id() for e in flat_elems(xs[i]))
            for (i, p, j) in junk:
                if p == P:
                    known.update(e.get_id() for e in flat_elems(j))
            for (where, who), v in it.rand_at.items():
                if who == P:
                    known.update(e.get_id() for e in flat_elems(v))
            others = {}
            for i, o in enumerate(case["owners"]):
                if not (o == "public" or o == P):
                    for e in flat_elems(xs[i]):
                        others[e.get_id()] = e
            U = {i: e for i, e in all_rand.items() if i not in known}
            msgs = []
            for nid, s, r in sends:
                if r == P:
                    for j, e in enumerate(flat_elems(pv[P][nid])):
                        msgs.append((nid, j, e))
            ob["messages"] = len(msgs)
            # ---- phase 1/2: elimination order (any order of the messages may be used in the induction)
            n = len(msgs)
            symsets = []
            for (nid, j, e) in msgs:
                symsets.append({s_.get_id(): s_ for s_ in symbols_of([e])})
            sym_cache = {k: set(symsets[k]) for k in range(n)}
            occ = {}
            for k in range(n):
                for i in symsets[k]:
                    if i in U:
                        occ.setdefault(i, set()).add(k)
            remaining = set(range(n))
            first_id = {}
            for k, (nid, j, e) in enumerate(msgs):
                first_id.setdefault(e.get_id(), k)
            in_E = {}
            seen = set()
            for k, (nid, j, e) in enumerate(msgs):
                # duplicates of an earlier message and messages over P's own data only
                if first_id[e.get_id()] != k or all(i in known for i in symsets[k]):
                    ob["harmless"] += 1
                    remaining.discard(k)
                    seen |= set(symsets[k])
                    continue
                cands = [symsets[k][i] for i in symsets[k] if i in U and i not in seen and symsets[k][i].size() == e.size()]
                ok = None
                if _uninterp(e) and cands:
                    ok = e
                    ob["masked_trivial"] += 1
                else:
                    for t in cands[:MAX_CAND]:
                        r = _decide(_inj_query(e, t, "%d_%d" % (P, k)), [], min(timeout_s, 30), kind)
                        ob["queries"] += 1
                        ob["secs"] += r.secs
                        if r.verdict == "unsat":
                            ok = t
                            break
                if ok is not None:
                    ob["masked"] += 1
                    in_E[k] = ok
                    remaining.discard(k)
                seen |= set(symsets[k])
            # ---- phase 3: determined by P's own data and earlier justified messages
            justified = set(range(n)) - remaining
            nonknown = {}
            for k in range(n):
                for i, s_ in symsets[k].items():
                    if i not in known:
                        nonknown[i] = s_
            nk = list(nonknown.values())
            nk2 = [z3.BitVec(str(s_) + "~", s_.size()) for s_ in nk]
            nsub = list(zip(nk, nk2))
            for k in sorted(remaining):
                nid, j, e = msgs[k]
                rel = [kk for kk in sorted(justified) if kk < k and (sym_cache[kk] & sym_cache[k] & set(nonknown))][-24:]
                hyp = [msgs[kk][2] == z3.substitute(msgs[kk][2], *nsub) for kk in rel]
                q = e != z3.substitute(e, *nsub)
                r = _decide(q, hyp, min(timeout_s, 60), kind)
                ob["queries"] += 1
                ob["secs"] += r.secs
                if r.verdict == "unsat":
                    ob["determined"] = ob.get("determined", 0) + 1
                    remaining.discard(k)
                    justified.add(k)
            # ---- phase 3b: groups moved to the end of the order (oblivious transfer: (m0 ^ r0, m1 ^ r1, r_c) is a
            # joint bijection of (r0, r1, the mask inside m)): symbols of T occur in no message outside the group
            grouped = set()
            for k in sorted(remaining):
                if k in grouped:
                    continue
                comp = {k}
                for i in symsets[k]:
                    if i in U:
                        comp |= {kk for kk in occ[i] if (kk in in_E or kk in remaining) and kk not in grouped}
                comp = sorted(comp)
                if not (2 <= len(comp) <= 8):
                    continue
                cs = set(comp)
                pool_ = {}
                for kk in comp:
                    for i, s_ in symsets[kk].items():
                        if i in U and occ[i] <= cs:
                            pool_[i] = s_
                sizes = sorted(msgs[kk][2].size() for kk in comp)
                pool_ = list(pool_.values())
                done_g = False
                tries = 0
                for Tsub in itertools.combinations(pool_, len(comp)):
                    if sorted(t.size() for t in Tsub) != sizes:
                        continue
                    tries += 1
                    if tries > 8:
                        break
                    T2 = [z3.BitVec("grp_%d_%d_%d" % (P, comp[0], ii), t.size()) for ii, t in enumerate(Tsub)]
                    sub = list(zip(Tsub, T2))
                    q = z3.And(z3.And(*[msgs[kk][2] == z3.substitute(msgs[kk][2], *sub) for kk in comp]), z3.Or(*[a != b for a, b in sub]))
                    r = _decide(q, [], min(timeout_s, 60), kind)
                    ob["queries"] += 1
                    ob["secs"] += r.secs
                    if r.verdict == "unsat":
                        done_g = True
                        break
                if done_g:
                    newly = [kk for kk in comp if kk in remaining]
                    ob["masked"] += len(newly)
                    ob["masked_in_groups"] = ob.get("masked_in_groups", 0) + len(comp)
                    for kk in comp:
                        grouped.add(kk)
                        remaining.discard(kk)
            residual = sorted(remaining)
            # ---- phase 4: residuals of an output recipient: injectivity of the locally computed output
            recipient = bool(case["outs"]) and P in case["outs"]
            if residual and recipient:
                it2 = Interp(F, sym=True)
                lv, mu = it2.run_local(F["main"], [in3[kk][P] for kk in range(len(in_types))], P)
                G = flat_elems(lv[gF["output"]])
                rho = []
                for k in residual:
                    nid, j, _ = msgs[k]
                    rho.append(flat_elems(mu[nid])[j])
                rho2 = [z3.BitVec(str(r_) + "'", r_.size()) for r_ in rho]
                G2 = [z3.substitute(g_, *zip(rho, rho2)) for g_ in G]
                q = z3.And(z3.And(*[a == b for a, b in zip(G, G2)]), z3.Or(*[a != b for a, b in zip(rho, rho2)]))
                r = _decide(q, list(it2.assumptions), timeout_s, kind)
                ob["queries"] += 1
                ob["secs"] += r.secs
                if r.verdict == "unsat":
                    ob["justified_by_output"] = len(residual)
                    residual = []
            if not residual:
                ob["verdict"] = "unsat"
                out["observers"].append(ob)
                continue
            # leak candidates: search a deterministic distinguisher
            ob["candidates"] = len(residual)
            Ul = list(U.values())
            U2 = [z3.BitVec(str(u) + "''", u.size()) for u in Ul]
            oth = list(others.values())
            oth2 = [z3.BitVec(str(e) + "'", e.size()) for e in oth]
            found = None
            nondet_out = "truncate" in case["template"]
            Ds = []  # (kind, nodeA, elemA, nodeB, elemB, term)
            for k in residual[:6]:
                nid, j, e = msgs[k]
                Ds.append(("msg", nid, j, None, None, e))
                partners = [kk for kk in range(k) if sym_cache[kk] & sym_cache[k] & set(U)][:6]
                for kk in partners:
                    e2 = msgs[kk][2]
                    if e2.size() != e.size():
                        continue
                    Ds.append(("sub", nid, j, msgs[kk][0], msgs[kk][1], e - e2))
                    if e.size() > 1:
                        Ds.append(("add", nid, j, msgs[kk][0], msgs[kk][1], e + e2))
            # anything P computes locally is a function of its view: values and element differences of P's own nodes
            oset = set(others)
            for nid2, node in enumerate(gF["nodes"]):
                v = pv[P][nid2]
                if not isinstance(v, Arr):
                    continue
                els = flat_elems(v)
                if not (1 <= len(els) <= 8):
                    continue
                if not any(s_.get_id() in oset for s_ in symbols_of(els)):
                    continue
                for i1 in range(len(els)):
                    Ds.append(("msg", nid2, i1, None, None, els[i1]))
                for i1 in range(len(els)):
                    for i2 in range(i1 + 1, min(len(els), i1 + 3)):
                        Ds.append(("sub", nid2, i2, nid2, i1, els[i2] - els[i1]))
            # cheap concrete pre-filter: constant over tapes, different over other-party inputs
            rngf = random.Random(1234 + P)
            allv = {}
            for (_, _, _, _, _, D) in Ds[:0]:
                pass
            def rnd_env(syms_):
                return [(s_, z3.BitVecVal(rngf.getrandbits(s_.size()), s_.size())) for s_ in syms_]
            keep = []
            if oth and not (recipient and nondet_out):
                base_syms = {}
                for (_, _, _, _, _, D) in Ds:
                    for s_ in symbols_of([D]):
                        base_syms[s_.get_id()] = s_
                fixed = [s_ for i, s_ in base_syms.items() if i not in U and i not in others]
                env_fixed = rnd_env(fixed)
                tapeA, tapeB = rnd_env(Ul), rnd_env(Ul)
                xA, xB = rnd_env(oth), rnd_env(oth)

                def ev(D, tape, xe):
                    r_ = z3.simplify(z3.substitute(D, *(env_fixed + tape + xe)))
                    return r_.as_long() if z3.is_bv_value(r_) else None
                for spec in Ds:
                    D = spec[5]
                    v1, v2 = ev(D, tapeA, xA), ev(D, tapeB, xA)
                    if v1 is None or v1 != v2:
                        continue
                    keep.append(spec)
                    if len(keep) >= 12:
                        break
            ob["distinguisher_candidates"] = len(keep)
            for (dk, nA, eA, nB, eB, D) in keep:
                qa = D != z3.substitute(D, *zip(Ul, U2)) if Ul else z3.BoolVal(False)
                ra = _decide(qa, [], min(timeout_s, 60), kind)
                ob["queries"] += 1
                ob["secs"] += ra.secs
                if ra.verdict != "unsat":
                    continue
                qb = D != z3.substitute(D, *zip(oth, oth2))
                pre = []
                if recipient:
                    so = flat_elems(s_out)
                    so2 = [z3.substitute(x_, *zip(oth, oth2)) for x_ in so]
                    pre = [a == b for a, b in zip(so, so2)]
                allsyms = [s_ for s_ in symbols_of([D] + (flat_elems(s_out) if recipient else [])) if s_.get_id() not in others]
                rb = _decide(qb, pre, timeout_s, kind, model_terms=oth + oth2 + allsyms)
                ob["queries"] += 1
                ob["secs"] += rb.secs
                if rb.verdict == "sat" and rb.model is not None:
                    no = len(oth)
                    env1 = {e_.get_id(): v for e_, v in zip(oth, rb.model[:no])}
                    env2 = {e_.get_id(): v for e_, v in zip(oth, rb.model[no:2 * no])}
                    kenv = {e_.get_id(): v for e_, v in zip(allsyms, rb.model[2 * no:])}
                    found = dict(kind=dk, node1=nA, elem1=eA, node2=nB, elem2=eB, width=D.size(), others=[str(e_) for e_ in oth], xo=rb.model[:no], xo2=rb.model[no:2 * no])
                    rng = random.Random(case.get("vseed", 0))

                    def val_of(v, envx, tape):
                        outv = []
                        for e_ in flat_elems(v):
                            i = e_.get_id()
                            if z3.is_bv_value(e_):
                                outv.append(e_.as_long())
                            elif i in envx:
                                outv.append(envx[i])
                            elif i in tape:
                                outv.append(tape[i])
                            elif i in kenv:
                                outv.append(kenv[i])
                            else:
                                outv.append(0)
                        return outv
                    runs = []
                    for tno in range(3):
                        tape = {u.get_id(): rng.getrandbits(u.size()) for u in Ul}
                        for which, envx in (("xo", env1), ("xo2", env2)):
                            inputs3 = [[mc.nest_like(in3[kk][p], val_of(in3[kk][p], envx, tape), [0]) for p in range(3)] for kk in range(len(in_types))]
                            ovr = [{}, {}, {}]
                            for (where, who), v in it.rand_at.items():
                                if who is not None and len(where) == 2:
                                    ovr[who]["%d:%d" % where] = (mc.value_type(v).to_json(), mc.nest_like(v, val_of(v, envx, tape), [0]))
                            runs.append(dict(which=which, tape=tno, inputs3=inputs3, overrides=ovr))
                    found["runs"] = runs
                    break
            if found:
                ob["verdict"] = "sat"
                ob["distinguisher"] = found
                status = "sat"
            else:
                ob["verdict"] = "undecided"
                ob["note"] = "%d message element(s) without a fresh mask and no deterministic distinguisher found; first at node %d" % (len(residual), msgs[residual[0]][0])
                if status == "unsat":
                    status = "undecided"
            out["observers"].append(ob)
        out["status"] = status
    except Unsupported as e:
        out["status"] = "unsupported"
        out["note"] = str(e)
    return out


def native_distinguisher(case, ob):
    """replay: the distinguisher value computed from what the real three-party executor delivers to P must be
    constant over tapes for each input vector and differ between the two. returns (confirmed, text) or None"""
    d = ob.get("distinguisher")
    if not d or not d.get("runs"):
        return None
    in_types = [T.from_json(j) for j in case["in_types"]]
    stages, idx = mc.mpc_stages(case["owners"], case["outs"], case["mode"])
    pes = []
    for r in d["runs"]:
        inputs = [[vals.enc(in_types[k], r["inputs3"][k][p]) for p in range(3)] for k in range(len(in_types))]
        ovr = [{key: vals.enc(T.from_json(tj), dd) for key, (tj, dd) in o.items()} for o in r["overrides"]]
        pes.append(dict(ctx=idx["F"], inputs=inputs, overrides=ovr, all_nodes=True))
    rr = drv.run_job(dict(ctx=case["prog"], stages=stages, dump=[idx["F"]], party_evals=pes))
    F = rr["contexts"][idx["F"]]["dump"]
    gF = F["graphs"][F["main"]]
    P = ob["P"]
    m = 1 << d["width"]

    def elem(rec, nid, j):
        t = T.from_json(gF["nodes"][nid]["type"])
        v = rec.get(str(nid))
        if v is None:
            return None
        dec = vals.dec(t, v)

        def fl(x):
            if isinstance(x, list):
                for y in x:
                    yield from fl(y)
            else:
                yield x
        return list(fl(dec))[j]
    seen = {"xo": set(), "xo2": set()}
    for r, pe in zip(d["runs"], rr.get("party_evals", [])):
        parties = pe.get("parties")
        if not parties:
            return None
        rec = parties[P].get("nodes", {})
        a = elem(rec, d["node1"], d["elem1"])
        if a is None:
            return None
        if d["kind"] != "msg":
            b = elem(rec, d["node2"], d["elem2"])
            if b is None:
                return None
            a = (a - b) % m if d["kind"] == "sub" else (a + b) % m
        seen[r["which"]].add(a % m)
    ok = len(seen["xo"]) == 1 and len(seen["xo2"]) == 1 and seen["xo"] != seen["xo2"]
    return ok, "distinguisher values over 3 tapes: first input vector %s, second %s" % (sorted(seen["xo"]), sorted(seen["xo2"]))


def gen_cases(tier, seed):
    from . import progs_mpc, gen
    cases = []
    k = 0
    rt = progs_mpc.ring_templates()
    names = sorted(rt)
    rng = random.Random(seed * 977 + 5)
    pick = names if tier == "thorough" else rng.sample(names, min(14, len(names)))
    outsets = [[0], [1], [2], [0, 1], [1, 2], [0, 1, 2], []]
    MODES = ["simple", "depth_default", "depth_extreme"]
    for name in pick:
        for st in (["u8", "i64"] if tier == "quick" else ["u8", "i32", "u64", "i128"]):
            prog, in_types = progs_mpc.instantiate_template(name, rt[name], st)
            n = len(in_types)
            ovs = [list(o) for o in itertools.product([0, 1, 2, "public"], repeat=n) if len({x for x in o if x != "public"}) >= 1]
            rng2 = random.Random(seed * 31 + k)
            rng2.shuffle(ovs)
            for ov in ovs[: (1 if tier == "quick" else 4)]:
                k += 1
                outs = outsets[(k + seed) % len(outsets)]
                mode = MODES[(k + seed) % 3]
                cases.append(dict(id="M:%s:%s:%s:%s:%s" % (name, st, "".join(str(o)[0] for o in ov), "".join(map(str, outs)) or "-", mode), template="M:" + name, st=st, prog=prog,
                                  in_types=[t.to_json() for t in in_types], owners=ov, outs=outs, mode=mode, vseed=seed * 1000 + k, n_evals=0, kind="ring", tier_kind="mask"))
    bt = progs_mpc.bool_templates()
    plan = [("a2b", ["u8"]), ("b2a", ["u8"]), ("a2b_b2a_sum", ["u8"]), ("mixed_mul", ["u8", "i32"]), ("mixed_mul_chain", ["u8"]), ("bit_and_xor", ["u8"]),
            ("truncate_pow2", ["u8", "i64"]), ("truncate_after_mul", ["u8", "i32"])]
    for name, sts in plan:
        for st in sts:
            prog, in_types = progs_mpc.instantiate_bool(name, bt[name], st)
            n = len(in_types)
            ovs = [list(o) for o in itertools.product([0, 1, 2, "public"], repeat=n) if len({x for x in o if x != "public"}) >= 1]
            rng2 = random.Random(seed * 37 + k)
            rng2.shuffle(ovs)
            for ov in ovs[: (2 if tier == "quick" else 6)]:
                k += 1
                outs = outsets[(k + seed) % len(outsets)]
                mode = MODES[(k + seed) % 3]
                cases.append(dict(id="MB:%s:%s:%s:%s:%s" % (name, st, "".join(str(o)[0] for o in ov), "".join(map(str, outs)) or "-", mode), template="MB:" + name, st=st, prog=prog,
                                  in_types=[t.to_json() for t in in_types], owners=ov, outs=outs, mode=mode, vseed=seed * 1000 + k, n_evals=0, kind="mixed", tier_kind="mask"))
    return cases
