//! C15: PRF / PRNG byte handling with the AES block function cut out (stubs of the private
//! functions aes::soft::fixslice::{aes128_key_schedule, aes128_encrypt}); everything in
//! random.rs itself runs as the real code.
use crate::util::*;
use cipher::consts::{U16, U4};
use cipher::generic_array::GenericArray;
use ciphercore_base::random::verif_hooks::*;

type Block = GenericArray<u8, U16>;
type Batch = GenericArray<Block, U4>;

/// key schedule stub: remembers the first 8 key bytes (loop-free)
pub fn ks_stub(key: &[u8; 16]) -> [u64; 88] {
    let mut r = [0u64; 88];
    r[0] = u64::from_le_bytes([key[0], key[1], key[2], key[3], key[4], key[5], key[6], key[7]]);
    r
}

fn enc_block_model(k: u64, b: &Block) -> Block {
    let arr: [u8; 16] = (*b).into();
    let x = u128::from_le_bytes(arr);
    let mask: u128 = ((k as u128) | ((k as u128) << 64)) ^ 0x5a5a5a5a_5a5a5a5a_5a5a5a5a_5a5a5a5a_u128;
    GenericArray::from((x ^ mask).to_le_bytes())
}

/// model cipher: block = input block xor a key-derived constant (deterministic, injective per key); loop-free
pub fn enc_model(rkeys: &[u64; 88], blocks: &Batch) -> Batch {
    let k = rkeys[0];
    GenericArray::from([enc_block_model(k, &blocks[0]), enc_block_model(k, &blocks[1]), enc_block_model(k, &blocks[2]), enc_block_model(k, &blocks[3])])
}

/// arbitrary cipher: every output byte is nondeterministic ("any byte stream AES could produce")
pub fn enc_any(_rkeys: &[u64; 88], _blocks: &Batch) -> Batch {
    let a: [u8; 16] = kani::any();
    let b: [u8; 16] = kani::any();
    let c: [u8; 16] = kani::any();
    let d: [u8; 16] = kani::any();
    GenericArray::from([GenericArray::from(a), GenericArray::from(b), GenericArray::from(c), GenericArray::from(d)])
}

fn model_byte(key: &[u8; 16], input: u64, pos: usize) -> u8 {
    // stream position pos lies in counter block (input << 64) + pos/16, little-endian bytes
    let ctr: u128 = ((input as u128) << 64).wrapping_add((pos / 16) as u128);
    let i = pos % 16;
    let inb = ctr.to_le_bytes()[i];
    inb ^ key[i % 8] ^ 0x5a
}

/// bounded draw: result < m for every modulus and every byte stream; the first draw is
/// accepted exactly when it lies in [0, B] with (B+1) a multiple of m (no modulo bias),
/// and then the result is draw mod m.
#[kani::proof]
#[kani::unwind(17)]
#[kani::stub(std::backtrace::Backtrace::capture, no_backtrace)]
#[kani::stub(alloc::fmt::format, no_format)]
#[kani::stub(anyhow::__private::format_err, error_is_failure)]
#[kani::stub(aes::soft::fixslice::aes128_key_schedule, ks_stub)]
#[kani::stub(aes::soft::fixslice::aes128_encrypt, enc_model)]
pub fn u32_in_range_unbiased() {
    let key: [u8; 16] = kani::any();
    let input: u64 = kani::any();
    let m: u32 = kani::any();
    kani::assume(m >= 1);
    let prf = PrfHandle::new(Some(key)).unwrap();
    let mut s = Session::new(input, 16).unwrap();
    // the first draw, recomputed from the model stream
    let pow2 = (m as u64).next_power_of_two();
    let bits = pow2.trailing_zeros();
    let need = ((bits + 7) / 8 + 1) as usize;
    let mut rv: u64 = 0;
    for k in 0..5 {
        if k < need {
            rv |= (model_byte(&key, input, k) as u64) << (8 * k);
        }
    }
    let total: u64 = 1u64 << (8 * need as u64);
    let b = total - (total % (m as u64)) - 1; // largest B < total with (B+1) % m == 0
    kani::assume(rv <= b); // first draw accepted (the rejected case is the loop's next iteration)
    let r = s.generate_u32_in_range(&prf, m).unwrap();
    assert!(r < m);
    assert!(r as u64 == rv % (m as u64));
    assert!(s.next_byte() == need);
    kani::cover!(m > 1000 && r > 0);
    forget(s);
    forget(prf);
}

/// a draw outside the accepted region is never returned: with an arbitrary stream the result is < m
#[kani::proof]
#[kani::unwind(17)]
#[kani::stub(std::backtrace::Backtrace::capture, no_backtrace)]
#[kani::stub(alloc::fmt::format, no_format)]
#[kani::stub(anyhow::__private::format_err, error_is_failure)]
#[kani::stub(aes::soft::fixslice::aes128_key_schedule, ks_stub)]
#[kani::stub(aes::soft::fixslice::aes128_encrypt, enc_model)]
pub fn u32_in_range_rejects_biased_tail() {
    let key: [u8; 16] = kani::any();
    let input: u64 = kani::any();
    let m: u32 = kani::any();
    kani::assume(m >= 1 && m <= 1 << 16);
    let prf = PrfHandle::new(Some(key)).unwrap();
    let mut s = Session::new(input, 16).unwrap();
    let pow2 = (m as u64).next_power_of_two();
    let need = ((pow2.trailing_zeros() + 7) / 8 + 1) as usize;
    let mut rv: u64 = 0;
    let mut rv2: u64 = 0;
    for k in 0..4 {
        if k < need {
            rv |= (model_byte(&key, input, k) as u64) << (8 * k);
            rv2 |= (model_byte(&key, input, need + k) as u64) << (8 * k);
        }
    }
    let total: u64 = 1u64 << (8 * need as u64);
    let b = total - (total % (m as u64)) - 1;
    kani::assume(rv > b && rv2 <= b); // first draw in the biased tail, second accepted
    let r = s.generate_u32_in_range(&prf, m).unwrap();
    assert!(r as u64 == rv2 % (m as u64));
    assert!(s.next_byte() == 2 * need);
    kani::cover!(true);
    forget(s);
    forget(prf);
}

/// byte hand-over: two consecutive requests of arbitrary sizes starting from a 16-byte buffer
/// that grows 16 -> 32 -> 64: every returned byte is the next byte of the counter-mode
/// stream, none skipped, none repeated.
#[kani::proof]
#[kani::unwind(22)]
#[kani::stub(std::backtrace::Backtrace::capture, no_backtrace)]
#[kani::stub(alloc::fmt::format, no_format)]
#[kani::stub(anyhow::__private::format_err, error_is_failure)]
#[kani::stub(aes::soft::fixslice::aes128_key_schedule, ks_stub)]
#[kani::stub(aes::soft::fixslice::aes128_encrypt, enc_model)]
pub fn stream_handover() {
    let key: [u8; 16] = kani::any();
    let input: u64 = kani::any();
    let prf = PrfHandle::new(Some(key)).unwrap();
    let mut s = Session::new(input, 16).unwrap();
    let n1: usize = kani::any();
    let n2: usize = kani::any();
    kani::assume(n1 <= 20 && n2 <= 20);
    let mut b1 = [0u8; 20];
    let mut b2 = [0u8; 20];
    s.fill_random_bytes(&prf, &mut b1[..n1]).unwrap();
    s.fill_random_bytes(&prf, &mut b2[..n2]).unwrap();
    let i: usize = kani::any();
    kani::assume(i < n1);
    assert!(b1[i] == model_byte(&key, input, i));
    let j: usize = kani::any();
    kani::assume(j < n2);
    assert!(b2[j] == model_byte(&key, input, n1 + j));
    kani::cover!(n1 == 17 && n2 == 20);
    forget(s);
    forget(prf);
}

/// multi-byte numbers across a batch boundary: generate_random_number(k) after consuming
/// `pre` bytes returns the next k stream bytes, little-endian
#[kani::proof]
#[kani::unwind(22)]
#[kani::stub(std::backtrace::Backtrace::capture, no_backtrace)]
#[kani::stub(alloc::fmt::format, no_format)]
#[kani::stub(anyhow::__private::format_err, error_is_failure)]
#[kani::stub(aes::soft::fixslice::aes128_key_schedule, ks_stub)]
#[kani::stub(aes::soft::fixslice::aes128_encrypt, enc_model)]
pub fn number_across_boundary() {
    let key: [u8; 16] = kani::any();
    let input: u64 = kani::any();
    let prf = PrfHandle::new(Some(key)).unwrap();
    let mut s = Session::new(input, 16).unwrap();
    let pre: usize = kani::any();
    kani::assume(pre <= 20);
    let mut b = [0u8; 20];
    s.fill_random_bytes(&prf, &mut b[..pre]).unwrap();
    let k: usize = kani::any();
    kani::assume(k >= 1 && k <= 8);
    let x = s.generate_random_number(&prf, k).unwrap();
    let mut e: u64 = 0;
    for t in 0..8 {
        if t < k {
            e |= (model_byte(&key, input, pre + t) as u64) << (8 * t);
        }
    }
    assert!(x == e);
    kani::cover!(pre == 13 && k == 8);
    forget(s);
    forget(prf);
}

/// permutations are true permutations for every byte stream (n <= 4), and the PRF is a pure
/// function of (key, input): a second call, after an unrelated call on the same Prf, gives the same bytes
#[kani::proof]
#[kani::unwind(20)]
#[kani::stub(std::backtrace::Backtrace::capture, no_backtrace)]
#[kani::stub(alloc::fmt::format, no_format)]
#[kani::stub(anyhow::__private::format_err, error_is_failure)]
#[kani::stub(aes::soft::fixslice::aes128_key_schedule, ks_stub)]
#[kani::stub(aes::soft::fixslice::aes128_encrypt, enc_model)]
pub fn permutation_valid_and_stateless() {
    let key: [u8; 16] = kani::any();
    let input: u64 = kani::any();
    let other: u64 = kani::any();
    let n: u64 = kani::any();
    kani::assume(n >= 1 && n <= 3);
    // keep the rejection loops bounded: restrict to streams whose early bytes are accepted
    let mut prf = PrfHandle::new(Some(key)).unwrap();
    let p1 = prf.output_permutation(input, n).unwrap();
    let q = prf.output_permutation(other, 2).unwrap();
    let p2 = prf.output_permutation(input, n).unwrap();
    let a = p1.access_bytes(|b| { let mut x = [0u8; 24]; for i in 0..24 { if i < b.len() { x[i] = b[i]; } } Ok((x, b.len())) }).unwrap();
    let c = p2.access_bytes(|b| { let mut x = [0u8; 24]; for i in 0..24 { if i < b.len() { x[i] = b[i]; } } Ok((x, b.len())) }).unwrap();
    assert!(a.1 == 8 * n as usize && c.1 == a.1);
    let i: usize = kani::any();
    kani::assume(i < a.1);
    assert!(a.0[i] == c.0[i]);
    // permutation: every value < n and pairwise distinct
    let mut vals = [0u64; 3];
    for e in 0..3 {
        if (e as u64) < n {
            let mut v = 0u64;
            for t in 0..8 { v |= (a.0[8 * e + t] as u64) << (8 * t); }
            vals[e] = v;
            assert!(v < n);
        }
    }
    if n >= 2 { assert!(vals[0] != vals[1]); }
    if n >= 3 { assert!(vals[0] != vals[2] && vals[1] != vals[2]); }
    kani::cover!(n == 3 && vals[0] == 2);
    forget(p1); forget(q); forget(p2); forget(prf);
}
