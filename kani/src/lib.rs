//! Kani proof harnesses over the real leaf kernels of ciphercore-base (path dependency on
//! /repo, feature verif-hooks).  Every harness: error paths tamed by stubbing
//! Backtrace::capture and alloc::fmt::format, values forgotten at the end.
#![allow(unused_imports, dead_code)]

#[cfg(kani)]
mod util;
#[cfg(kani)]
mod h_bytes;
#[cfg(kani)]
mod h_slices;
