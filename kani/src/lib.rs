//! Kani proof harnesses over the real leaf kernels of ciphercore-base (path dependency on
//! /repo, feature verif-hooks).  Every harness: error paths tamed by stubbing
//! Backtrace::capture and alloc::fmt::format, values forgotten at the end.
#![allow(unused_imports, dead_code)]

#[cfg(kani)]
mod util;
#[cfg(kani)]
mod h_bytes;
#[cfg(kani)]
mod h_slices;
#[cfg(kani)]
mod h_values;
#[cfg(kani)]
mod h_share;
#[cfg(kani)]
mod h_index;
// h_random.rs (C15 probes) is kept in the tree but not compiled: see DESIGN.md §6 C15
