//! C09 / C10: index arithmetic shared by typing rules and evaluator loops.
use crate::util::*;
use ciphercore_base::broadcast::verif_hooks::broadcast_shapes;
use ciphercore_base::broadcast::{index_to_number, number_to_index};
use ciphercore_base::evaluators::simple_evaluator::verif_hooks::*;
use ciphercore_base::graphs::SliceElement;
use ciphercore_base::slices::verif_hooks::get_slice_shape;
use ciphercore_base::slices::slice_index;

/// NumPy broadcasting of two shapes of rank <= 2, dims 1..3
#[kani::proof]
#[kani::unwind(4)]
#[kani::stub(std::backtrace::Backtrace::capture, no_backtrace)]
#[kani::stub(alloc::fmt::format, no_format)]
#[kani::stub(anyhow::__private::format_err, error_opaque)]
pub fn broadcast_shapes_numpy() {
    let r1: usize = kani::any();
    let r2: usize = kani::any();
    kani::assume(r1 >= 1 && r1 <= 2 && r2 >= 1 && r2 <= 2);
    let a: [u64; 2] = kani::any();
    let b: [u64; 2] = kani::any();
    kani::assume(a[0] >= 1 && a[0] <= 3 && a[1] >= 1 && a[1] <= 3 && b[0] >= 1 && b[0] <= 3 && b[1] >= 1 && b[1] <= 3);
    let s1 = a[..r1].to_vec();
    let s2 = b[..r2].to_vec();
    let r = std::cmp::max(r1, r2);
    // independent spec, right-aligned
    let mut ok = true;
    let mut exp = [1u64; 2];
    for k in 0..2 {
        // k counts from the right
        let x = if k < r1 { a[r1 - 1 - k] } else { 1 };
        let y = if k < r2 { b[r2 - 1 - k] } else { 1 };
        if x != y && x != 1 && y != 1 { if k < r { ok = false; } }
        exp[k] = if x > y { x } else { y };
    }
    match broadcast_shapes(s1, s2) {
        Ok(res) => {
            assert!(ok);
            assert!(res.len() == r);
            for k in 0..2 {
                if k < r { assert!(res[r - 1 - k] == exp[k]); }
            }
            kani::cover!(r1 == 1 && r2 == 2 && res[1] == 3);
            forget(res);
        }
        Err(e) => { assert!(!ok); forget(e); }
    }
}

/// number_to_index / index_to_number are inverse on in-range numbers; indices stay in bounds
#[kani::proof]
#[kani::unwind(5)]
pub fn index_roundtrip() {
    let r: usize = kani::any();
    kani::assume(r >= 1 && r <= 3);
    let d: [u64; 3] = kani::any();
    kani::assume(d[0] >= 1 && d[0] <= 4 && d[1] >= 1 && d[1] <= 4 && d[2] >= 1 && d[2] <= 4);
    let shape = &d[..r];
    let mut total = 1u64;
    for k in 0..r { total *= shape[k]; }
    let n: u64 = kani::any();
    kani::assume(n < total);
    let idx = number_to_index(n, shape);
    assert!(idx.len() == r);
    for k in 0..r { assert!(idx[k] < shape[k]); }
    assert!(index_to_number(&idx, shape) == n);
    kani::cover!(r == 3 && n == total - 1);
    forget(idx);
}

/// inverse permutation: arbitrary index arrays of length <= 4: Err or a true inverse, never a panic
#[kani::proof]
#[kani::unwind(6)]
#[kani::stub(std::backtrace::Backtrace::capture, no_backtrace)]
#[kani::stub(alloc::fmt::format, no_format)]
#[kani::stub(anyhow::__private::format_err, error_opaque)]
pub fn inverse_permutation_total() {
    let n: usize = kani::any();
    kani::assume(n >= 1 && n <= 4);
    let raw: [u64; 4] = kani::any();
    let v = raw[..n].to_vec();
    match execute_inverse_permutation(v) {
        Ok(inv) => {
            assert!(inv.len() == n);
            let i: usize = kani::any();
            kani::assume(i < n);
            assert!((raw[i] as usize) < n);
            // when the input is a permutation the result is its inverse
            let mut distinct = true;
            for a in 0..4 { for b in 0..4 { if a < b && b < n && raw[a] == raw[b] { distinct = false; } } }
            if distinct { assert!(inv[raw[i] as usize] == i as u64); }
            kani::cover!(n == 4 && distinct);
            forget(inv);
        }
        Err(e) => {
            let mut oob = false;
            for a in 0..4 { if a < n && raw[a] as usize >= n { oob = true; } }
            assert!(oob);
            forget(e);
        }
    }
}

fn any_opt() -> Option<i64> {
    if kani::any() { Some(kani::any()) } else { None }
}

/// rank-2 arrays (dims 1..3) and a fixed slice skeleton with arbitrary i64 parameters:
/// get_slice_shape Ok(rs) => every index below rs maps through slice_index to an in-bounds
/// index of the input (what the evaluator indexes a Vec with)
macro_rules! slice2 {
    ($name:ident, $mk:expr) => {
        #[kani::proof]
        #[kani::unwind(6)]
        #[kani::stub(std::backtrace::Backtrace::capture, no_backtrace)]
        #[kani::stub(alloc::fmt::format, no_format)]
        #[kani::stub(anyhow::__private::format_err, error_opaque)]
        pub fn $name() {
            let d0: u64 = kani::any();
            let d1: u64 = kani::any();
            kani::assume(d0 >= 1 && d0 <= 3 && d1 >= 1 && d1 <= 3);
            let slice: Vec<SliceElement> = $mk;
            match get_slice_shape(vec![d0, d1], slice.clone()) {
                Ok(rs) => {
                    assert!(rs.len() <= 2);
                    let i0: u64 = kani::any();
                    let i1: u64 = kani::any();
                    let idx = if rs.len() == 2 {
                        kani::assume(i0 < rs[0] && i1 < rs[1]);
                        vec![i0, i1]
                    } else if rs.len() == 1 {
                        kani::assume(i0 < rs[0]);
                        vec![i0]
                    } else {
                        vec![0]
                    };
                    match slice_index(vec![d0, d1], slice, idx) {
                        Ok(j) => { assert!(j.len() == 2 && j[0] < d0 && j[1] < d1); forget(j); }
                        Err(e) => { forget(e); assert!(false, "accepted slice fails at run time"); }
                    }
                    kani::cover!(rs.len() >= 1 && rs[0] == 2);
                    forget(rs);
                }
                Err(e) => forget(e),
            }
        }
    };
}
slice2!(slice2_sub, vec![SliceElement::SubArray(any_opt(), any_opt(), any_opt())]);
slice2!(slice2_idx_sub, vec![SliceElement::SingleIndex(kani::any()), SliceElement::SubArray(any_opt(), any_opt(), any_opt())]);
slice2!(slice2_ell_sub, vec![SliceElement::Ellipsis, SliceElement::SubArray(any_opt(), any_opt(), any_opt())]);
slice2!(slice2_sub_idx, vec![SliceElement::SubArray(any_opt(), any_opt(), any_opt()), SliceElement::SingleIndex(kani::any())]);
