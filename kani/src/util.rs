use std::backtrace::Backtrace;

pub fn no_backtrace() -> Backtrace {
    Backtrace::disabled()
}
pub fn no_format(_: std::fmt::Arguments<'_>) -> String {
    String::new()
}
/// leak a value so that its drop glue is not analysed
pub fn forget<T>(t: T) {
    std::mem::forget(t)
}
