use std::backtrace::Backtrace;

pub fn no_backtrace() -> Backtrace {
    Backtrace::disabled()
}
pub fn no_format(_: std::fmt::Arguments<'_>) -> String {
    String::new()
}
/// leak a value so that its drop glue is not analysed
pub fn forget<T>(t: T) {
    std::mem::forget(t)
}

/// Stub for `anyhow::__private::format_err` in harnesses whose property says "no error on
/// any path": constructing an error is reported as a failure at the construction site,
/// and the (very expensive for CBMC) anyhow object model is never entered.
pub fn error_is_failure(_: std::fmt::Arguments<'_>) -> anyhow::Error {
    panic!("an error was constructed on a path where the property requires success")
}

/// Stub for `anyhow::__private::format_err` in harnesses where returning an error is a
/// legitimate outcome: fabricates an opaque, never dereferenced error handle (anyhow::Error
/// is one non-null pointer).  Every such error is leaked by the harness (`forget`), so the
/// handle is never dropped or displayed; a dereference would be reported by CBMC.
pub fn error_opaque(_: std::fmt::Arguments<'_>) -> anyhow::Error {
    unsafe { std::mem::transmute::<usize, anyhow::Error>(16usize) }
}
