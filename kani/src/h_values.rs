//! C13: values encode integers faithfully (byte half).
use crate::util::*;
use ciphercore_base::data_types::*;
use ciphercore_base::data_values::Value;
use ciphercore_base::bytes::{vec_to_bytes, vec_u128_from_bytes, vec_u64_from_bytes};

fn mask(w: u32) -> u128 {
    if w == 128 { u128::MAX } else { (1u128 << w) - 1 }
}
/// the documented reading of an element of width w: value mod 2^w, sign-extended for signed types
fn expect(x128: u128, w: u32, signed: bool) -> u128 {
    let m = x128 & mask(w);
    if signed && w < 128 && (m >> (w - 1)) & 1 == 1 { m | !mask(w) } else { m }
}

macro_rules! roundtrip {
    ($name:ident, $t:ty, $st:expr, $w:expr, $signed:expr) => {
        #[kani::proof]
        #[kani::unwind(18)]
        #[kani::stub(std::backtrace::Backtrace::capture, no_backtrace)]
        #[kani::stub(alloc::fmt::format, no_format)]
        #[kani::stub(anyhow::__private::format_err, error_is_failure)]
        pub fn $name() {
            let xs: [$t; 1] = kani::any();
            match vec_to_bytes(&xs, $st) {
                Ok(bytes) => {
                    assert!(bytes.len() == ($w as usize) / 8);
                    match vec_u128_from_bytes(&bytes, $st) {
                        Ok(out) => {
                            assert!(out.len() == 1);
                            let src = (xs[0] as i128) as u128; // sign/zero extension of the source integer
                            assert_eq!(out[0], expect(src, $w, $signed));
                            kani::cover!(true);
                            forget(out);
                        }
                        Err(e) => { forget(e); assert!(false); }
                    }
                    forget(bytes);
                }
                Err(e) => { forget(e); assert!(false); }
            }
        }
    };
}

roundtrip!(rt_i8_i8, i8, INT8, 8, true);
roundtrip!(rt_u8_u8, u8, UINT8, 8, false);
roundtrip!(rt_i16_i16, i16, INT16, 16, true);
roundtrip!(rt_u16_u16, u16, UINT16, 16, false);
roundtrip!(rt_i32_i32, i32, INT32, 32, true);
roundtrip!(rt_u32_u32, u32, UINT32, 32, false);
roundtrip!(rt_i64_i64, i64, INT64, 64, true);
roundtrip!(rt_u64_u64, u64, UINT64, 64, false);
roundtrip!(rt_i128_i128, i128, INT128, 128, true);
roundtrip!(rt_u128_u128, u128, UINT128, 128, false);
// cross instantiations: truncation and sign extension from each narrower width
roundtrip!(rt_i64_i8, i64, INT8, 8, true);
roundtrip!(rt_i8_i64, i8, INT64, 64, true);
roundtrip!(rt_i16_u128, i16, UINT128, 128, false);
roundtrip!(rt_u64_i128, u64, INT128, 128, true);
roundtrip!(rt_i128_u64, i128, UINT64, 64, false);
roundtrip!(rt_u128_i16, u128, INT16, 16, true);
roundtrip!(rt_i32_i16, i32, INT16, 16, true);
roundtrip!(rt_i16_i32, i16, INT32, 32, true);
roundtrip!(rt_u32_i64, u32, INT64, 64, true);
roundtrip!(rt_i64_u32, i64, UINT32, 32, false);

/// bit arrays: length 1..=17, packed eight to a byte, LSB first, no stray bits; unpacking returns the bits
#[kani::proof]
#[kani::unwind(19)]
#[kani::stub(std::backtrace::Backtrace::capture, no_backtrace)]
#[kani::stub(alloc::fmt::format, no_format)]
#[kani::stub(anyhow::__private::format_err, error_is_failure)]
pub fn bits_pack_1_to_17() {
    let n: usize = kani::any();
    kani::assume(n >= 1 && n <= 17);
    let raw: [u8; 17] = kani::any();
    let mut bits = [0u8; 17];
    for i in 0..17 {
        bits[i] = raw[i] & 1;
    }
    let b = vec_to_bytes(&bits[..n], BIT).unwrap();
    assert!(b.len() == (n + 7) / 8);
    let i: usize = kani::any();
    kani::assume(i < n);
    assert!((b[i / 8] >> (i % 8)) & 1 == bits[i]);
    let j: usize = kani::any();
    kani::assume(j >= n && j < b.len() * 8);
    assert!((b[j / 8] >> (j % 8)) & 1 == 0); // no stray bits
    let back = vec_u128_from_bytes(&b, BIT).unwrap();
    assert!(back.len() == b.len() * 8);
    assert!(back[i] == bits[i] as u128);
    kani::cover!(n == 9);
    forget(b);
    forget(back);
}

/// non-bit inputs for a BIT value are rejected, never silently truncated
#[kani::proof]
#[kani::unwind(10)]
#[kani::stub(std::backtrace::Backtrace::capture, no_backtrace)]
#[kani::stub(alloc::fmt::format, no_format)]
#[kani::stub(anyhow::__private::format_err, error_opaque)]
pub fn bits_reject_non_bits() {
    let xs: [u8; 3] = kani::any();
    kani::assume(xs[0] > 1 || xs[1] > 1 || xs[2] > 1);
    match vec_to_bytes(&xs, BIT) {
        Ok(v) => { forget(v); assert!(false); }
        Err(e) => forget(e),
    }
}

/// 64-bit reader: arbitrary byte strings of a valid length decode to sign-extended elements;
/// a length that is not a multiple of the element size is an error
macro_rules! decode64 {
    ($name:ident, $st:expr, $w:expr, $signed:expr) => {
        #[kani::proof]
        #[kani::unwind(18)]
        #[kani::stub(std::backtrace::Backtrace::capture, no_backtrace)]
        #[kani::stub(alloc::fmt::format, no_format)]
        #[kani::stub(anyhow::__private::format_err, error_opaque)]
        pub fn $name() {
            let raw: [u8; 16] = kani::any();
            let len: usize = kani::any();
            kani::assume(len <= 16);
            let nb = ($w as usize) / 8;
            match vec_u64_from_bytes(&raw[..len], $st) {
                Ok(out) => {
                    assert!(len % nb == 0 && out.len() == len / nb);
                    let i: usize = kani::any();
                    kani::assume(i < out.len());
                    let mut x: u128 = 0;
                    for k in 0..nb {
                        x |= (raw[i * nb + k] as u128) << (8 * k);
                    }
                    let e = expect(x, $w, $signed);
                    assert_eq!(out[i], e as u64);
                    kani::cover!(out.len() >= 2);
                    forget(out);
                }
                Err(e) => { assert!(len % nb != 0); forget(e); }
            }
        }
    };
}
decode64!(dec64_i8, INT8, 8, true);
decode64!(dec64_u16, UINT16, 16, false);
decode64!(dec64_i16, INT16, 16, true);
decode64!(dec64_i32, INT32, 32, true);
decode64!(dec64_u32, UINT32, 32, false);
decode64!(dec64_i64, INT64, 64, true);

/// 128-bit reader: arbitrary byte strings: Ok iff the length is a multiple of the element
/// size, elements sign-extended to 128 bits
macro_rules! decode128 {
    ($name:ident, $st:expr, $w:expr, $signed:expr, $max:expr) => {
        #[kani::proof]
        #[kani::unwind(19)]
        #[kani::stub(std::backtrace::Backtrace::capture, no_backtrace)]
        #[kani::stub(alloc::fmt::format, no_format)]
        #[kani::stub(anyhow::__private::format_err, error_opaque)]
        pub fn $name() {
            let raw: [u8; $max] = kani::any();
            let len: usize = kani::any();
            kani::assume(len <= $max);
            let nb = ($w as usize) / 8;
            match vec_u128_from_bytes(&raw[..len], $st) {
                Ok(out) => {
                    assert!(len % nb == 0 && out.len() == len / nb);
                    let i: usize = kani::any();
                    kani::assume(i < out.len());
                    let mut x: u128 = 0;
                    for k in 0..nb {
                        x |= (raw[i * nb + k] as u128) << (8 * k);
                    }
                    assert_eq!(out[i], expect(x, $w, $signed));
                    kani::cover!(out.len() >= 1);
                    forget(out);
                }
                Err(e) => { assert!(len % nb != 0); forget(e); }
            }
        }
    };
}
decode128!(dec128_i8, INT8, 8, true, 3);
decode128!(dec128_u16, UINT16, 16, false, 5);
decode128!(dec128_i16, INT16, 16, true, 5);
decode128!(dec128_i32, INT32, 32, true, 9);
decode128!(dec128_i64, INT64, 64, true, 9);
decode128!(dec128_u128, UINT128, 128, false, 17);
