//! C09: slice index arithmetic: accepted when the node is added => cannot fail when run.
use crate::util::*;
use ciphercore_base::graphs::SliceElement;
use ciphercore_base::slices::verif_hooks::*;

fn any_opt_i64() -> Option<i64> {
    if kani::any() { Some(kani::any()) } else { None }
}

/// one axis of symbolic length 1..=4, an arbitrary SubArray(begin, end, step):
/// no panic / overflow; Ok(Some(n)) => n >= 1 and every index below n maps into the axis
#[kani::proof]
#[kani::unwind(7)]
#[kani::stub(std::backtrace::Backtrace::capture, no_backtrace)]
#[kani::stub(alloc::fmt::format, no_format)]
#[kani::stub(anyhow::__private::format_err, error_opaque)]
pub fn slice_1d_subarray() {
    let d: u64 = kani::any();
    kani::assume(d >= 1 && d <= 4);
    let e = SliceElement::SubArray(any_opt_i64(), any_opt_i64(), any_opt_i64());
    match get_slice_shape_1d(d, e.clone()) {
        Ok(Some(n)) => {
            assert!(n >= 1 && n <= d);
            let i: u64 = kani::any();
            kani::assume(i < n);
            match slice_1d_index(d, e, i) {
                Ok(j) => assert!(j < d),
                Err(err) => {
                    forget(err);
                    assert!(false, "accepted slice fails at run time");
                }
            }
            kani::cover!(n == 4);
        }
        Ok(None) => assert!(false),
        Err(err) => forget(err),
    }
}

#[kani::proof]
#[kani::stub(std::backtrace::Backtrace::capture, no_backtrace)]
#[kani::stub(alloc::fmt::format, no_format)]
#[kani::stub(anyhow::__private::format_err, error_opaque)]
pub fn slice_1d_single_index() {
    let d: u64 = kani::any();
    kani::assume(d >= 1 && d <= (1u64 << 40));
    let ind: i64 = kani::any();
    match get_slice_shape_1d(d, SliceElement::SingleIndex(ind)) {
        Ok(None) => {
            let real = if ind >= 0 { ind } else { ind + d as i64 };
            assert!(real >= 0 && (real as u64) < d);
        }
        Ok(Some(_)) => assert!(false),
        Err(err) => forget(err),
    }
}
