//! C14: additive secret sharing at the level of the arithmetic kernels that
//! typed_value::generalized_subtract / generalized_add apply to every scalar/array leaf:
//! vec_u128_from_bytes -> subtract/add_vectors_u128(modulus of the type) -> vec_to_bytes.
use crate::util::*;
use ciphercore_base::bytes::{add_vectors_u128, subtract_vectors_u128, vec_to_bytes, vec_u128_from_bytes};
use ciphercore_base::data_types::*;

macro_rules! share_bytes {
    ($name:ident, $st:expr, $nbytes:expr) => {
        /// v0, v1 arbitrary draws (valid encodings), v2 = v - v0 - v1; v0 + v1 + v2 = v, byte for byte
        #[kani::proof]
        #[kani::unwind(18)]
        #[kani::stub(std::backtrace::Backtrace::capture, no_backtrace)]
        #[kani::stub(alloc::fmt::format, no_format)]
        #[kani::stub(anyhow::__private::format_err, error_is_failure)]
        pub fn $name() {
            let st = $st;
            let v: [u8; $nbytes] = kani::any();
            let r0: [u8; $nbytes] = kani::any();
            let r1: [u8; $nbytes] = kani::any();
            if st == BIT {
                // valid encodings of bit[3]: unused bits flushed (contract of PRNG::get_random_value, C15)
                kani::assume(v[0] < 8 && r0[0] < 8 && r1[0] < 8);
            }
            let m = st.get_modulus();
            let x = vec_u128_from_bytes(&v, st).unwrap();
            let a0 = vec_u128_from_bytes(&r0, st).unwrap();
            let a1 = vec_u128_from_bytes(&r1, st).unwrap();
            let t = subtract_vectors_u128(&x, &a0, m).unwrap();
            let a2 = subtract_vectors_u128(&t, &a1, m).unwrap();
            let share2 = vec_to_bytes(&a2, st).unwrap();
            // reveal
            let b2 = vec_u128_from_bytes(&share2, st).unwrap();
            let s01 = add_vectors_u128(&a0, &a1, m).unwrap();
            let s = add_vectors_u128(&s01, &b2, m).unwrap();
            let out = vec_to_bytes(&s, st).unwrap();
            assert!(out.len() == $nbytes);
            let i: usize = kani::any();
            kani::assume(i < $nbytes);
            assert_eq!(out[i], v[i]);
            kani::cover!(share2[0] != v[0]);
            forget(x); forget(a0); forget(a1); forget(t); forget(a2); forget(share2); forget(b2); forget(s01); forget(s); forget(out);
        }
    };
}
share_bytes!(share_rt_bit3, BIT, 1);
share_bytes!(share_rt_i8x2, INT8, 2);
share_bytes!(share_rt_u16, UINT16, 2);
share_bytes!(share_rt_i32, INT32, 4);
share_bytes!(share_rt_u64, UINT64, 8);
share_bytes!(share_rt_i64, INT64, 8);
share_bytes!(share_rt_u128, UINT128, 16);
share_bytes!(share_rt_i128, INT128, 16);

macro_rules! share_inj {
    ($name:ident, $m:expr, $w:expr) => {
        /// uniformity: for a fixed secret the pair of shares a party holds is an injective function
        /// of the two draws (domain and codomain have equal size => a bijection => uniform).
        /// party 0 holds (v0, v1): identity. party 1 holds (v1, v2), party 2 holds (v2, v0), v2 = v - v0 - v1.
        #[kani::proof]
        #[kani::unwind(3)]
        #[kani::stub(std::backtrace::Backtrace::capture, no_backtrace)]
        #[kani::stub(alloc::fmt::format, no_format)]
        #[kani::stub(anyhow::__private::format_err, error_is_failure)]
        pub fn $name() {
            let m: Option<u128> = $m;
            let mk: u128 = if $w == 128 { u128::MAX } else { (1u128 << $w) - 1 };
            let v: u128 = kani::any();
            let (p0, p1, q0, q1): (u128, u128, u128, u128) = (kani::any(), kani::any(), kani::any(), kani::any());
            kani::assume(v <= mk && p0 <= mk && p1 <= mk && q0 <= mk && q1 <= mk);
            let p2 = subtract_vectors_u128(&subtract_vectors_u128(&[v], &[p0], m).unwrap(), &[p1], m).unwrap();
            let q2 = subtract_vectors_u128(&subtract_vectors_u128(&[v], &[q0], m).unwrap(), &[q1], m).unwrap();
            assert!(p2[0] <= mk);
            // party 1: (v1, v2) equal => draws equal
            if p1 == q1 && p2[0] == q2[0] {
                assert!(p0 == q0);
            }
            // party 2: (v2, v0) equal => draws equal
            if p0 == q0 && p2[0] == q2[0] {
                assert!(p1 == q1);
            }
            // any two parties reconstruct: v = v0 + v1 + v2
            let s = add_vectors_u128(&add_vectors_u128(&[p0], &[p1], m).unwrap(), &p2, m).unwrap();
            assert!(s[0] == v);
            kani::cover!(p2[0] != v && p0 != q0);
            forget(p2); forget(q2); forget(s);
        }
    };
}
share_inj!(share_inj_bit, Some(2), 1);
share_inj!(share_inj_w8, Some(1 << 8), 8);
share_inj!(share_inj_w16, Some(1 << 16), 16);
share_inj!(share_inj_w32, Some(1 << 32), 32);
share_inj!(share_inj_w64, Some(1 << 64), 64);
share_inj!(share_inj_w128, None, 128);

// ---- the real typed_value::generalized_subtract / generalized_add on scalar leaves
use ciphercore_base::data_values::Value;
use ciphercore_base::typed_value::{generalized_add, generalized_subtract};

macro_rules! share_tv {
    ($name:ident, $st:expr, $nbytes:expr) => {
        #[kani::proof]
        #[kani::unwind(18)]
        #[kani::stub(std::backtrace::Backtrace::capture, no_backtrace)]
        #[kani::stub(alloc::fmt::format, no_format)]
        #[kani::stub(anyhow::__private::format_err, error_is_failure)]
        pub fn $name() {
            let v: [u8; $nbytes] = kani::any();
            let r0: [u8; $nbytes] = kani::any();
            let r1: [u8; $nbytes] = kani::any();
            let val = Value::from_bytes(v.to_vec());
            let v0 = Value::from_bytes(r0.to_vec());
            let v1 = Value::from_bytes(r1.to_vec());
            let t = generalized_subtract(val, v0.clone(), scalar_type($st)).unwrap();
            let v2 = generalized_subtract(t, v1.clone(), scalar_type($st)).unwrap();
            let s01 = generalized_add(v0, v1, scalar_type($st)).unwrap();
            let s = generalized_add(s01, v2.clone(), scalar_type($st)).unwrap();
            let ok = s.access_bytes(|b| {
                assert!(b.len() == $nbytes);
                let i: usize = kani::any();
                kani::assume(i < $nbytes);
                assert!(b[i] == v[i]);
                Ok(true)
            });
            match ok { Ok(_) => {}, Err(e) => { forget(e); assert!(false); } }
            kani::cover!(true);
            forget(s); forget(v2);
        }
    };
}
share_tv!(share_tv_u8, UINT8, 1);
share_tv!(share_tv_i64, INT64, 8);
share_tv!(share_tv_u128, UINT128, 16);
share_tv!(share_tv_i128, INT128, 16);
