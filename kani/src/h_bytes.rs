//! C10: modular arithmetic kernels of bytes.rs against an independently written spec.
use crate::util::*;
use ciphercore_base::bytes::verif_hooks::*;

/// all moduli the type system produces for the u64 path: 2^1, 2^8, 2^16, 2^32, None (2^64)
fn any_modulus_u64() -> (Option<u64>, u32) {
    let k: u8 = kani::any();
    kani::assume(k < 5);
    match k {
        0 => (Some(2), 1),
        1 => (Some(1 << 8), 8),
        2 => (Some(1 << 16), 16),
        3 => (Some(1 << 32), 32),
        _ => (None, 64),
    }
}
fn mask64(w: u32) -> u64 {
    if w == 64 { u64::MAX } else { (1u64 << w) - 1 }
}
fn any_modulus_u128() -> (Option<u128>, u32) {
    let k: u8 = kani::any();
    kani::assume(k < 6);
    match k {
        0 => (Some(2), 1),
        1 => (Some(1 << 8), 8),
        2 => (Some(1 << 16), 16),
        3 => (Some(1 << 32), 32),
        4 => (Some(1 << 64), 64),
        _ => (None, 128),
    }
}
fn mask128(w: u32) -> u128 {
    if w == 128 { u128::MAX } else { (1u128 << w) - 1 }
}

#[kani::proof]
pub fn add_u64_spec() {
    let (m, w) = any_modulus_u64();
    let a: u64 = kani::any();
    let b: u64 = kani::any();
    let r = add_u64(a, b, m);
    assert_eq!(r, a.wrapping_add(b) & mask64(w));
    kani::cover!(m.is_none() && a > b && r < a);
}

#[kani::proof]
pub fn add_u128_spec() {
    let (m, w) = any_modulus_u128();
    let a: u128 = kani::any();
    let b: u128 = kani::any();
    let r = add_u128(a, b, m);
    assert_eq!(r, a.wrapping_add(b) & mask128(w));
    kani::cover!(m.is_none() && r < a);
}

#[kani::proof]
pub fn multiply_u64_spec() {
    let (m, w) = any_modulus_u64();
    let a: u64 = kani::any();
    let b: u64 = kani::any();
    let r = multiply_u64(a, b, m);
    assert_eq!(r, a.wrapping_mul(b) & mask64(w));
    kani::cover!(m.is_none() && a > 1 && b > 1);
}

#[kani::proof]
pub fn multiply_u128_spec() {
    let (m, w) = any_modulus_u128();
    let a: u128 = kani::any();
    let b: u128 = kani::any();
    let r = multiply_u128(a, b, m);
    assert_eq!(r, a.wrapping_mul(b) & mask128(w));
    kani::cover!(m.is_none() && a > 1 && b > 1);
}

// ---- vector kernels (length 2, symbolic values), one harness per modulus so that `% m` folds
macro_rules! vec64 {
    ($name:ident, $m:expr, $w:expr) => {
        #[kani::proof]
        #[kani::unwind(4)]
        #[kani::stub(std::backtrace::Backtrace::capture, no_backtrace)]
        #[kani::stub(alloc::fmt::format, no_format)]
        #[kani::stub(anyhow::__private::format_err, error_is_failure)]
        pub fn $name() {
            let a: [u64; 2] = kani::any();
            let b: [u64; 2] = kani::any();
            let m: Option<u64> = $m;
            let mk = mask64($w);
            let s = ciphercore_base::bytes::add_vectors_u64(&a, &b, m).unwrap();
            let d = ciphercore_base::bytes::subtract_vectors_u64(&a, &b, m).unwrap();
            let p = ciphercore_base::bytes::multiply_vectors_u64(&a, &b, m).unwrap();
            let dt = ciphercore_base::bytes::dot_vectors_u64(&a, &b, m).unwrap();
            let sm = ciphercore_base::bytes::sum_vector_u64(&a, m);
            assert!(s.len() == 2 && d.len() == 2 && p.len() == 2);
            for i in 0..2 {
                assert_eq!(s[i], a[i].wrapping_add(b[i]) & mk);
                assert_eq!(d[i], a[i].wrapping_sub(b[i]) & mk);
                assert_eq!(p[i], a[i].wrapping_mul(b[i]) & mk);
            }
            assert_eq!(dt, a[0].wrapping_mul(b[0]).wrapping_add(a[1].wrapping_mul(b[1])) & mk);
            assert_eq!(sm, a[0].wrapping_add(a[1]) & mk);
            kani::cover!(a[0] > (mk >> 1) && b[1] > (mk >> 1));
            forget(s); forget(d); forget(p);
        }
    };
}
vec64!(vec64_bit, Some(2), 1);
vec64!(vec64_w8, Some(1 << 8), 8);
vec64!(vec64_w16, Some(1 << 16), 16);
vec64!(vec64_w32, Some(1 << 32), 32);
vec64!(vec64_w64, None, 64);

macro_rules! vec128 {
    ($name:ident, $m:expr, $w:expr, $mul:expr) => {
        #[kani::proof]
        #[kani::unwind(4)]
        #[kani::stub(std::backtrace::Backtrace::capture, no_backtrace)]
        #[kani::stub(alloc::fmt::format, no_format)]
        #[kani::stub(anyhow::__private::format_err, error_is_failure)]
        pub fn $name() {
            let a: [u128; 2] = kani::any();
            let b: [u128; 2] = kani::any();
            let m: Option<u128> = $m;
            let mk = mask128($w);
            let s = ciphercore_base::bytes::add_vectors_u128(&a, &b, m).unwrap();
            let d = ciphercore_base::bytes::subtract_vectors_u128(&a, &b, m).unwrap();
            assert!(s.len() == 2 && d.len() == 2);
            for i in 0..2 {
                assert_eq!(s[i], a[i].wrapping_add(b[i]) & mk);
                assert_eq!(d[i], a[i].wrapping_sub(b[i]) & mk);
            }
            if $mul {
                let p = ciphercore_base::bytes::multiply_vectors_u128(&a, &b, m).unwrap();
                let dt = ciphercore_base::bytes::dot_vectors_u128(&a, &b, m).unwrap();
                for i in 0..2 {
                    assert_eq!(p[i], a[i].wrapping_mul(b[i]) & mk);
                }
                assert_eq!(dt, a[0].wrapping_mul(b[0]).wrapping_add(a[1].wrapping_mul(b[1])) & mk);
                forget(p);
            }
            kani::cover!(a[0] > (1u128 << 64) && b[1] > (1u128 << 100));
            forget(s); forget(d);
        }
    };
}
vec128!(vec128_bit, Some(2), 1, true);
vec128!(vec128_w8, Some(1 << 8), 8, true);
vec128!(vec128_w32, Some(1 << 32), 32, true);
vec128!(vec128_w64, Some(1 << 64), 64, true);
vec128!(vec128_w128_addsub, None, 128, false);
vec128!(vec128_w128_mul, None, 128, true);

/// broadcast_to_shape: every result element is the NumPy-broadcast source element
#[kani::proof]
#[kani::unwind(10)]
pub fn broadcast_to_shape_spec() {
    use ciphercore_base::evaluators::simple_evaluator::verif_hooks::broadcast_to_shape_u128;
    // source shapes [d0, d1] with d in {1,2} broadcast to [2, 2, 2]
    let d0: u64 = kani::any();
    let d1: u64 = kani::any();
    kani::assume((d0 == 1 || d0 == 2) && (d1 == 1 || d1 == 2));
    let arr: [u128; 4] = kani::any();
    let n = (d0 * d1) as usize;
    let out = broadcast_to_shape_u128(&arr[..n], &[d0, d1], &[2, 2, 2]);
    assert!(out.len() == 8);
    let i: usize = kani::any();
    let j: usize = kani::any();
    let k: usize = kani::any();
    kani::assume(i < 2 && j < 2 && k < 2);
    let sj = if d0 == 1 { 0 } else { j };
    let sk = if d1 == 1 { 0 } else { k };
    assert_eq!(out[i * 4 + j * 2 + k], arr[sj * (d1 as usize) + sk]);
    kani::cover!(d0 == 1 && d1 == 2);
    forget(out);
}
