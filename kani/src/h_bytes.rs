//! C10: modular arithmetic kernels of bytes.rs against an independently written spec.
use crate::util::*;
use ciphercore_base::bytes::verif_hooks::*;

/// all moduli the type system produces for the u64 path: 2^1, 2^8, 2^16, 2^32, None (2^64)
fn any_modulus_u64() -> (Option<u64>, u32) {
    let k: u8 = kani::any();
    kani::assume(k < 5);
    match k {
        0 => (Some(2), 1),
        1 => (Some(1 << 8), 8),
        2 => (Some(1 << 16), 16),
        3 => (Some(1 << 32), 32),
        _ => (None, 64),
    }
}
fn mask64(w: u32) -> u64 {
    if w == 64 { u64::MAX } else { (1u64 << w) - 1 }
}
fn any_modulus_u128() -> (Option<u128>, u32) {
    let k: u8 = kani::any();
    kani::assume(k < 6);
    match k {
        0 => (Some(2), 1),
        1 => (Some(1 << 8), 8),
        2 => (Some(1 << 16), 16),
        3 => (Some(1 << 32), 32),
        4 => (Some(1 << 64), 64),
        _ => (None, 128),
    }
}
fn mask128(w: u32) -> u128 {
    if w == 128 { u128::MAX } else { (1u128 << w) - 1 }
}

#[kani::proof]
fn add_u64_spec() {
    let (m, w) = any_modulus_u64();
    let a: u64 = kani::any();
    let b: u64 = kani::any();
    let r = add_u64(a, b, m);
    assert_eq!(r, a.wrapping_add(b) & mask64(w));
    kani::cover!(m.is_none() && a > b && r < a);
}

#[kani::proof]
fn add_u128_spec() {
    let (m, w) = any_modulus_u128();
    let a: u128 = kani::any();
    let b: u128 = kani::any();
    let r = add_u128(a, b, m);
    assert_eq!(r, a.wrapping_add(b) & mask128(w));
    kani::cover!(m.is_none() && r < a);
}

#[kani::proof]
fn multiply_u64_spec() {
    let (m, w) = any_modulus_u64();
    let a: u64 = kani::any();
    let b: u64 = kani::any();
    let r = multiply_u64(a, b, m);
    assert_eq!(r, a.wrapping_mul(b) & mask64(w));
    kani::cover!(m.is_none() && a > 1 && b > 1);
}

#[kani::proof]
fn multiply_u128_spec() {
    let (m, w) = any_modulus_u128();
    let a: u128 = kani::any();
    let b: u128 = kani::any();
    let r = multiply_u128(a, b, m);
    assert_eq!(r, a.wrapping_mul(b) & mask128(w));
    kani::cover!(m.is_none() && a > 1 && b > 1);
}
