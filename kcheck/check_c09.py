from .common import run_property
from symg import opvalidate

TABLE = [
    dict(h="slice_1d_subarray", fn="slices::get_slice_shape_1d + slice_1d_index", key="slice_1d|overflow-or-oob",
         what="axis length 1..4, arbitrary SubArray(Option<i64> x3): no panic/overflow; accepted => count in 1..=d and every index maps into the axis"),
    dict(h="slice_1d_single_index", fn="slices::get_slice_shape_1d (SingleIndex)", what="axis length up to 2^40, arbitrary i64 index: accepted => in bounds after normalisation"),
    dict(h="slice2_sub", fn="slices::get_slice_shape + slice_index + get_clean_slice", what="rank-2 arrays dims 1..3, slice [SubArray(any i64 x3)]: accepted => every result index maps in bounds of the input"),
    dict(h="broadcast_shapes_numpy", fn="broadcast::broadcast_shapes", what="ranks 1..2, dims 1..3: Ok iff NumPy-broadcastable, result is the NumPy shape"),
    dict(h="index_roundtrip", fn="broadcast::{number_to_index,index_to_number}", what="ranks 1..3, dims 1..4: mutually inverse, indices in bounds"),
    dict(h="broadcast_to_shape_spec", fn="evaluators::simple_evaluator::broadcast_to_shape", what="source [d0,d1], d in {1,2}, to [2,2,2]: no out-of-bounds access, every element is the NumPy-broadcast source element"),
    dict(h="inverse_permutation_total", fn="evaluators::simple_evaluator::execute_inverse_permutation", what="arbitrary u64 index arrays of length 1..4: Err iff some index out of range, never a panic; inverse on permutations"),
]

if __name__ == "__main__":
    run_property("C09", TABLE,
                 functions=sorted({t["fn"] for t in TABLE}),
                 bounds=dict(slices="axis length 1..4 (1-d), rank 2 dims 1..3; all i64 begin/end/step/index values", shapes="ranks <= 3, dims <= 4", permutations="length <= 4, all u64 values"),
                 outside=["rank-2 slices with two elements / Ellipsis (harnesses slice2_idx_sub, slice2_ell_sub, slice2_sub_idx run out of memory in CBMC); their per-axis arithmetic is the 1-d kernel proved here",
                          "whole-graph evaluation: Context/Graph construction is out of CBMC's reach (580 s / 15 GB for a 3-node graph)",
                          "every function that takes a ciphercore Type or TypedValue (dot/matmul/gemm typing rules and evaluators, Value::check_type, gather): the recursive Arc-based Type drop glue makes even a 2-byte check_type harness exceed 400 s; "
                          "for these, 'value has the shape of the inferred type, no panic' is observed only by the graph-SMT engine: Value::check_type(node type) on every node of every validation run and catch_unwind around every stage (sampled, not solver-decided)"],
                 assumptions=["supporting family (sampled, not solver-decided): %d-style differential of one-operation graphs, real SimpleEvaluator vs independent NumPy-style interpreter on boundary vectors, every node through Value::check_type, catch_unwind around every evaluation" % 0],
                 extra=lambda chk: opvalidate.run(chk, "C09"),
                 explanation="bounded model checking of the index arithmetic shared by typing rules and evaluator loops: what is accepted when the node is added cannot fail or index out of bounds when run")
