"""Engine K runner: Kani/CBMC over the harness crate /verif/kani (path dependency on
/repo/ciphercore-base with feature verif-hooks; rebuilt from the current tree on every run)."""
import os
import re
import shutil
import subprocess
import sys
import time

VERIF = os.path.dirname(os.path.dirname(os.path.abspath(__file__)))
sys.path.insert(0, VERIF)
from symg.common import Check  # noqa: E402

KANI_DIR = os.path.join(VERIF, "kani")


def env():
    e = dict(os.environ)
    e["CARGO_NET_OFFLINE"] = "true"
    e["RUSTFLAGS"] = "--cfg aes_force_soft"
    return e


def run_kani(pid, harnesses, jobs=8, timeout_s=3000, mem_gb=40):
    """one cargo-kani invocation for all harnesses (parallel with -j). returns
    {harness: dict(status, secs, failed=[...], covers=(sat,total))}, raw log path"""
    target = os.path.join(VERIF, "target", "kani")
    os.makedirs(target, exist_ok=True)
    shutil.copyfile("/repo/Cargo.lock", os.path.join(KANI_DIR, "Cargo.lock"))
    cmd = ["cargo", "kani", "-Z", "stubbing", "--target-dir", target, "-j", str(jobs), "--output-format", "terse"]
    for h in harnesses:
        cmd += ["--harness", h, "--exact"] if False else ["--harness", h]
    log = os.path.join(VERIF, "work", "kani_%s.log" % pid)
    os.makedirs(os.path.dirname(log), exist_ok=True)
    t0 = time.time()
    with open(log, "w") as f:
        try:
            p = subprocess.run(["bash", "-c", "ulimit -v %d; exec \"$@\"" % (mem_gb * 1024 * 1024), "bash"] + cmd,
                               cwd=KANI_DIR, env=env(), stdout=f, stderr=subprocess.STDOUT, timeout=timeout_s)
            rc = p.returncode
        except subprocess.TimeoutExpired:
            rc = -9
    txt = open(log).read()
    return parse_log(txt, harnesses), log, rc, time.time() - t0


def parse_log(txt, harnesses):
    res = {}
    thread_h = {}
    cur = None  # harness whose result block we are inside
    block = {}
    lines = txt.splitlines()
    last_checked = None
    for ln in lines:
        m = re.match(r"(?:Thread (\d+): )?Checking harness (\S+?)\.\.\.", ln)
        if m:
            thread_h[m.group(1)] = m.group(2)
            last_checked = m.group(2)
            continue
        m = re.match(r"Thread (\d+): \s*$", ln)
        if m:
            cur = thread_h.get(m.group(1))
            block.setdefault(cur, [])
            continue
        if ln.startswith("VERIFICATION RESULT") and cur is None:
            cur = last_checked
            block.setdefault(cur, [])
        if cur is not None:
            block[cur].append(ln)
            if ln.startswith("Verification Time"):
                cur = None
    for name, bl in block.items():
        if name is None:
            continue
        b = "\n".join(bl)
        short = name.split("::")[-1]
        st = "UNKNOWN"
        m = re.search(r"VERIFICATION:- (\w+)", b)
        if m:
            st = m.group(1)
        secs = None
        m = re.search(r"Verification Time: ([0-9.]+)s", b)
        if m:
            secs = float(m.group(1))
        failed = re.findall(r"Failed Checks: (.*)", b)
        cov = re.search(r"\*\* (\d+) of (\d+) cover properties satisfied", b)
        unwind_fail = any("unwinding assertion" in f for f in failed)
        res[short] = dict(full=name, status=st, secs=secs, failed=failed, covers=(int(cov.group(1)), int(cov.group(2))) if cov else None,
                          unwind_fail=unwind_fail, oom=("Status: ERROR" in b or "out of memory" in b.lower()))
    for h in harnesses:
        if h not in res:
            res[h] = dict(full=h, status="NOT_RUN", secs=None, failed=[], covers=None, unwind_fail=False, oom=False)
    return res


def playback(pid, harness, full_name=None, timeout_s=1500):
    """concrete playback of a failing harness: Kani prints a unit test holding the solver's
    concrete values; it is written to kani/src/playback_gen.rs, run natively (dev profile,
    real error handling - stubs are not applied) and removed. returns (reproduced, text)"""
    target = os.path.join(VERIF, "target", "kani")
    full_name = full_name or harness
    gen = os.path.join(KANI_DIR, "src", "playback_gen.rs")
    librs = os.path.join(KANI_DIR, "src", "lib.rs")
    lib_orig = open(librs).read()
    try:
        cmd = ["cargo", "kani", "-Z", "stubbing", "-Z", "concrete-playback", "--concrete-playback=print", "--target-dir", target, "--harness", harness]
        p = subprocess.run(cmd, cwd=KANI_DIR, env=env(), stdout=subprocess.PIPE, stderr=subprocess.STDOUT, text=True, timeout=timeout_s)
        blocks = re.findall(r"Concrete playback unit test for `[^`]*`:\n```\n(.*?)\n```", p.stdout, re.S)
        tests = []
        for b in blocks:
            m = re.search(r"Check for `(\w+)`", b)
            kind = m.group(1) if m else "?"
            n = re.search(r"fn (kani_concrete_playback_\w+)", b)
            if n and kind != "cover":
                tests.append((n.group(1), b))
        if not tests:
            return False, "no concrete playback test was printed"
        mod_path = "::".join(full_name.split("::")[:-1])
        with open(gen, "w") as f:
            f.write("// generated by kcheck.common.playback; removed after the run\n#![allow(unused_imports)]\nuse crate::%s::%s;\n\n" % (mod_path, harness))
            for _, b in tests[:3]:
                f.write(b + "\n\n")
        with open(librs, "w") as f:
            f.write(lib_orig + "\n#[cfg(kani)]\nmod playback_gen;\n")
        out = []
        reproduced = False
        for t, b in tests[:3]:
            q = subprocess.run(["cargo", "kani", "playback", "-Z", "concrete-playback", "--", t], cwd=KANI_DIR, env=env(),
                               stdout=subprocess.PIPE, stderr=subprocess.STDOUT, text=True, timeout=timeout_s)
            tail = "\n".join(q.stdout.splitlines()[-25:])
            out.append("%s: exit %d\n%s" % (t, q.returncode, tail))
            if q.returncode != 0 and ("panicked" in q.stdout or "test result: FAILED" in q.stdout):
                reproduced = True
        vals = "\n".join(b[-1200:] for _, b in tests[:1])
        return reproduced, "\n".join(out) + "\nconcrete values (Kani's generated unit test):\n" + vals
    except subprocess.TimeoutExpired:
        return False, "playback timed out"
    finally:
        if os.path.exists(gen):
            os.unlink(gen)
        with open(librs, "w") as f:
            f.write(lib_orig)


def run_property(pid, table, functions, bounds, outside, assumptions, explanation, extra=None):
    """table: list of dict(h=harness name, fn=function(s) under test, tier='quick'|'thorough', what=str, key=role key)"""
    chk = Check(pid, "model_checking")
    chk.module = "kcheck"
    sel = [t for t in table if t.get("tier", "quick") == "quick" or chk.tier == "thorough"]
    if os.environ.get("VERIF_DEV_SKIP_KANI"):  # developer shortcut, never used by the registered commands
        sel = []
    names = [t["h"] for t in sel]
    if names:
        res, log, rc, wall = run_kani(pid, names, jobs=int(os.environ.get("VERIF_KANI_JOBS", "8")),
                                      timeout_s=3000 if chk.tier == "quick" else 14000)
    else:
        res, log, rc, wall = {}, None, 0, 0.0
    chk.count("kani_wall_s", int(wall))
    if rc == -9:
        chk.inconc("cargo kani timed out")
    if sel and all(r["status"] == "NOT_RUN" for r in res.values()):
        tail = "\n".join(open(log).read().splitlines()[-30:])
        chk.inconc("cargo kani did not run any harness (build failure?):\n" + tail)
    for t in sel:
        r = res[t["h"]]
        chk.count("harnesses")
        chk.count("status_" + r["status"])
        if r["secs"]:
            chk.solver_secs += r["secs"]
        if r["status"] == "SUCCESSFUL":
            if r["covers"] and r["covers"][0] < r["covers"][1]:
                chk.inconc("%s: reachability witness (kani::cover) not satisfied: %s of %s" % (t["h"], r["covers"][0], r["covers"][1]))
            else:
                chk.count("cover_witnesses", r["covers"][0] if r["covers"] else 0)
            chk.sample(dict(harness=t["h"], function=t["fn"], what=t["what"], verdict="SUCCESSFUL", secs=r["secs"]), cap=12)
        elif r["status"] == "FAILED":
            if r["oom"]:
                chk.inconc("%s: CBMC error / out of memory" % t["h"])
                continue
            if r["unwind_fail"] and len(r["failed"]) == 1:
                chk.inconc("%s: unwinding bound too small (%s)" % (t["h"], r["failed"]))
                continue
            reproduced, text = playback(pid, t["h"], r.get("full"))
            chk.count("counterexamples_replayed")
            if reproduced:
                chk.violation(t.get("key", t["h"]), "%s (%s): %s; failed checks: %s\n%s" % (t["h"], t["fn"], t["what"], r["failed"][:4], text[-1500:]),
                              dict(kind="kani", harness=t["h"], function=t["fn"], failed=r["failed"], playback=text[-6000:]))
            else:
                chk.inconc("%s: Kani reports %s but the concrete playback did not fail natively:\n%s" % (t["h"], r["failed"][:3], text[-800:]))
        else:
            chk.inconc("%s: %s" % (t["h"], r["status"]))
    if extra is not None:
        extra(chk)
    chk.functions = functions
    chk.bounds = bounds
    chk.outside = outside
    chk.assumptions = assumptions + ["stubs in every harness: std::backtrace::Backtrace::capture -> disabled, alloc::fmt::format -> empty string (error messages are not modelled; that an error is returned is)",
                                     "harness values are leaked with mem::forget (drop glue not analysed)", "Kani 0.68 / CBMC 6.11 with unwinding assertions on"]
    chk.finish(dict(evaluations=len(sel), distinct_nontrivial=len({t["fn"] for t in sel}),
                    rule="one Kani proof harness per (function, concrete instantiation); distinct = distinct functions under test; all harness inputs are kani::any() within the stated bounds",
                    explanation=explanation, harnesses=[dict(h=t["h"], fn=t["fn"], what=t["what"], status=res[t["h"]]["status"], secs=res[t["h"]]["secs"]) for t in sel]))
