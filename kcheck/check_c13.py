from .common import run_property

PAIRS = [("i8", "i8"), ("u8", "u8"), ("i16", "i16"), ("u16", "u16"), ("i32", "i32"), ("u32", "u32"), ("i64", "i64"), ("u64", "u64"), ("i128", "i128"), ("u128", "u128"),
         ("i64", "i8"), ("i8", "i64"), ("i16", "u128"), ("u64", "i128"), ("i128", "u64"), ("u128", "i16"), ("i32", "i16"), ("i16", "i32"), ("u32", "i64"), ("i64", "u32")]
QUICK = {("i8", "i8"), ("u16", "u16"), ("i32", "i32"), ("u64", "u64"), ("i128", "i128"), ("u128", "u128"), ("i64", "i8"), ("i8", "i64"), ("i16", "u128"), ("u64", "i128"), ("i128", "u64"), ("u128", "i16")}
TABLE = [dict(h="rt_%s_%s" % (a, b), fn="bytes::vec_to_bytes + vec_u128_from_bytes (Value::from_flattened_array / to_flattened_array_u128 byte path)",
              what="every %s written as scalar type %s reads back as the value modulo 2^w, sign-extended for signed types" % (a, b),
              tier="quick" if (a, b) in QUICK else "thorough") for a, b in PAIRS]
TABLE += [
    dict(h="bits_pack_1_to_17", fn="bytes::vec_to_bytes / vec_u128_from_bytes (BIT)", what="bit arrays of every length 1..17: ceil(n/8) bytes, bit i at byte i/8 position i%8, no stray bits, unpacking returns the bits"),
    dict(h="bits_reject_non_bits", fn="bytes::vec_to_bytes (BIT)", what="an input element > 1 is an error, never silently truncated"),
    dict(h="dec64_i8", fn="bytes::vec_u64_from_bytes", what="64-bit reader: sign extension from 8 bits, length check"),
    dict(h="dec64_u16", fn="bytes::vec_u64_from_bytes", what="zero extension from 16 bits"),
    dict(h="dec64_i16", fn="bytes::vec_u64_from_bytes", what="sign extension from 16 bits"),
    dict(h="dec64_i32", fn="bytes::vec_u64_from_bytes", what="sign extension from 32 bits"),
    dict(h="dec64_i64", fn="bytes::vec_u64_from_bytes", what="64-bit elements", tier="thorough"),
    dict(h="dec128_i16", fn="bytes::vec_u128_from_bytes", what="128-bit reader: arbitrary byte strings <= 5 bytes as INT16: Ok iff length is a multiple of 2, sign extension to 128 bits", key="dec128|ragged-or-signext"),
    dict(h="dec128_i8", fn="bytes::vec_u128_from_bytes", what="128-bit reader, INT8, <= 3 bytes", tier="thorough", key="dec128|ragged-or-signext"),
    dict(h="dec128_i64", fn="bytes::vec_u128_from_bytes", what="128-bit reader, INT64, <= 9 bytes", tier="thorough", key="dec128|ragged-or-signext"),
    dict(h="dec128_u128", fn="bytes::vec_u128_from_bytes", what="128-bit reader, UINT128, <= 17 bytes", tier="thorough", key="dec128|ragged-or-signext"),
]

if __name__ == "__main__":
    run_property("C13", TABLE,
                 functions=sorted({t["fn"] for t in TABLE}),
                 bounds=dict(integers="one element per round trip, all values of the source integer type", bit_arrays="length 1..17", byte_strings="<= 16 bytes"),
                 outside=["the human-readable JSON form (typed_value_serialization.rs: serde_json arbitrary-precision numbers over heap Strings) - not encodable within meaningful bounds",
                          "Value::check_type and the Type-recursive container layout (Type's recursive Arc drop glue is out of CBMC's reach); Value::from_flattened_array / to_flattened_array_* are one-line wrappers (from_bytes . vec_to_bytes, check_type + vec_*_from_bytes + truncate) around the kernels proved here"],
                 assumptions=["an error constructed on a path where the property requires success is reported as a failure (stub of anyhow::__private::format_err)"],
                 explanation="Kani proves the integer<->byte kernels behind Value::from_flattened_array / to_flattened_array_* for every source integer type x target scalar type instantiation listed, all values")
