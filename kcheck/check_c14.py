from .common import run_property
from symg import sharecheck

TABLE = [dict(h="share_rt_%s" % n, fn="bytes::{vec_u128_from_bytes, subtract_vectors_u128, add_vectors_u128, vec_to_bytes} as composed by typed_value::generalized_subtract / generalized_add",
              what="type %s: for every secret and every pair of draws, v0 + v1 + (v - v0 - v1) = v byte for byte" % n, tier=t)
         for n, t in [("bit3", "quick"), ("i8x2", "quick"), ("u16", "thorough"), ("i32", "quick"), ("u64", "thorough"), ("i64", "quick"), ("u128", "quick"), ("i128", "quick")]]
TABLE += [dict(h="share_inj_%s" % n, fn="bytes::{subtract_vectors_u128, add_vectors_u128} (per-party share pairs)",
               what="modulus %s: the pair of shares held by party 1 (v1,v2) and party 2 (v2,v0) is an injective function of the two draws for every secret (hence a bijection, hence uniform); v0+v1+v2 = v" % n, tier=t)
          for n, t in [("bit", "quick"), ("w8", "quick"), ("w16", "thorough"), ("w32", "thorough"), ("w64", "quick"), ("w128", "quick")]]

TABLE += [dict(h="share_tv_%s" % n, fn="typed_value::{generalized_subtract, generalized_add} (real functions, scalar leaf of type %s)" % n,
               what="v0 + v1 + ((v - v0) - v1) = v byte for byte for every secret and every pair of draws, through the real generalized_subtract / generalized_add", tier=t, key="share_tv|%s" % n)
          for n, t in [("u8", "quick"), ("u128", "quick"), ("i64", "thorough"), ("i128", "thorough")]]

if __name__ == "__main__":
    run_property("C14", TABLE,
                 functions=sorted({t["fn"] for t in TABLE}),
                 bounds=dict(leaves="one scalar / 2-element array / bit[3] leaf per harness; all secrets, all draws"),
                 outside=["the container recursion of typed_value::{generalized_subtract, generalized_add} (tuples/vectors/named tuples) and the walk of {secret_share, shard_to_shares, secret_share_reveal, get_local_shares_for_each_party}, ReplicatedShares and mpc::utils::share_vector "
                          "(nested Arc-based Types are out of CBMC's reach; scalar leaves ARE harnessed through the real functions): by reading, the recursion applies the leaf case to every leaf and places shares i, i+1 and an independent PRNG draw in slot i+2; this placement is NOT solver-checked",
                          "supporting family (SAMPLED): the real TypedValue / ReplicatedShares / share_vector functions are run natively on typed values of all 11 scalar types, ragged bit arrays and nested containers under several seeds; reconstruction and the documented per-party layout are checked on the results (symg/sharecheck.py)", "the distribution of the draws themselves is PRNG's contract (C15)", "ciphercore_split_parties (file I/O)"],
                 assumptions=["PRNG::get_random_value returns an arbitrary valid value of the requested type (kani::any bytes, unused bits flushed - the contract C15 establishes), so 'for every seed' becomes 'for every draw'"],
                 extra=lambda chk: sharecheck.run(chk),
                 explanation="Kani proves reconstruction and the bijection argument for uniformity at the arithmetic leaf that the sharing code applies to every scalar/array leaf, for every scalar width")
