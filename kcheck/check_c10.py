from .common import run_property
from symg import opvalidate

TABLE = [
    dict(h="add_u64_spec", fn="bytes::add_u64", what="all u64 operands x all moduli {2,2^8,2^16,2^32,none}"),
    dict(h="add_u128_spec", fn="bytes::add_u128", what="all u128 operands x all moduli {2,2^8,2^16,2^32,2^64,none}"),
    dict(h="multiply_u64_spec", fn="bytes::multiply_u64", what="all u64 operands x all moduli"),
    dict(h="multiply_u128_spec", fn="bytes::multiply_u128", what="all u128 operands x all moduli", tier="thorough"),
    dict(h="vec64_bit", fn="bytes::{add,subtract,multiply,dot}_vectors_u64, sum_vector_u64", what="length 2, all operand values (incl. unreduced), modulus 2"),
    dict(h="vec64_w8", fn="bytes::{add,subtract,multiply,dot}_vectors_u64, sum_vector_u64", what="length 2, modulus 2^8"),
    dict(h="vec64_w16", fn="bytes::{add,subtract,multiply,dot}_vectors_u64, sum_vector_u64", what="length 2, modulus 2^16", tier="thorough"),
    dict(h="vec64_w32", fn="bytes::{add,subtract,multiply,dot}_vectors_u64, sum_vector_u64", what="length 2, modulus 2^32"),
    dict(h="vec64_w64", fn="bytes::{add,subtract,multiply,dot}_vectors_u64, sum_vector_u64", what="length 2, no modulus (2^64)"),
    dict(h="vec128_bit", fn="bytes::{add,subtract,multiply,dot}_vectors_u128", what="length 2, all u128 operand values, modulus 2"),
    dict(h="vec128_w8", fn="bytes::{add,subtract,multiply,dot}_vectors_u128", what="length 2, modulus 2^8"),
    dict(h="vec128_w32", fn="bytes::{add,subtract,multiply,dot}_vectors_u128", what="length 2, modulus 2^32", tier="thorough"),
    dict(h="vec128_w64", fn="bytes::{add,subtract,multiply,dot}_vectors_u128", what="length 2, modulus 2^64"),
    dict(h="vec128_w128_addsub", fn="bytes::{add,subtract}_vectors_u128", what="length 2, no modulus (2^128), values >= 2^64 covered"),
    dict(h="vec128_w128_mul", fn="bytes::{multiply,dot}_vectors_u128", what="length 2, no modulus (2^128)", tier="thorough"),
    dict(h="broadcast_to_shape_spec", fn="evaluators::simple_evaluator::broadcast_to_shape", what="NumPy broadcasting of element positions, u128 elements"),
    dict(h="dec64_i8", fn="bytes::vec_u64_from_bytes", what="arbitrary byte strings <= 16 bytes: sign extension from 8 bits"),
    dict(h="dec64_i16", fn="bytes::vec_u64_from_bytes", what="sign extension from 16 bits; odd lengths rejected"),
    dict(h="dec64_i32", fn="bytes::vec_u64_from_bytes", what="sign extension from 32 bits"),
    dict(h="dec64_u32", fn="bytes::vec_u64_from_bytes", what="zero extension from 32 bits", tier="thorough"),
]

if __name__ == "__main__":
    run_property("C10", TABLE,
                 functions=sorted({t["fn"] for t in TABLE}),
                 bounds=dict(vectors="length 2 (unwind 4)", values="all 64/128-bit operand values, including values not reduced modulo the type and values >= 2^64",
                             moduli="every modulus the type system produces"),
                 outside=["the per-operation code inside SimpleEvaluator::evaluate_node and the evaluate_* functions that take Type/Value arguments (dot, matmul, gemm, permute_axes, sum, gather, Stack, Get, GetSlice, Concatenate, ...): out of CBMC's reach (recursive Arc-based Type); "
                          "they are compared with the independent NumPy-style interpreter (symg/interp.py) on boundary vectors incl. 2^64, 2^64+1, 2^127, 2^128-1 for every node of every graph the graph-SMT checks build (translator validation: sampled, not solver-decided); "
                          "a mismatch there is reported by the graph-SMT checks as inconclusive and by `./check C10` (validation family) as a violation",
                          "128-bit symbolic x symbolic multiplication is in the thorough tier only (188 s)"],
                 assumptions=["supporting family (sampled, not solver-decided): %d-style differential of one-operation graphs, real SimpleEvaluator vs independent NumPy-style interpreter on boundary vectors, every node through Value::check_type, catch_unwind around every evaluation" % 0],
                 extra=lambda chk: opvalidate.run(chk, "C10"),
                 explanation="Kani proves the modular-arithmetic and byte-decoding kernels every arithmetic operation of the evaluator is built from equal an independently written wrapping/masking specification for all operand values")
