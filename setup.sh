#!/bin/bash
# Offline setup: build the driver against /repo's working tree; create output dirs.
set -e
cd "$(dirname "$0")"
export CARGO_NET_OFFLINE=true
mkdir -p target evidence replays work
cp /repo/Cargo.lock driver/Cargo.lock 2>/dev/null || true
CARGO_TARGET_DIR="$PWD/target/driver" cargo build --release --offline --manifest-path driver/Cargo.toml
if [ -d kani ]; then
  cp /repo/Cargo.lock kani/Cargo.lock 2>/dev/null || true
fi
echo "setup done"
