#!/bin/bash
# Offline setup: build the driver against /repo's working tree; create output dirs.
set -e
cd "$(dirname "$0")"
export CARGO_NET_OFFLINE=true
mkdir -p target evidence replays work
cp /repo/Cargo.lock driver/Cargo.lock 2>/dev/null || true
CARGO_TARGET_DIR="$PWD/target/driver" cargo build --release --offline --manifest-path driver/Cargo.toml
if [ -d kani ]; then
  cp /repo/Cargo.lock kani/Cargo.lock 2>/dev/null || true
  # pre-build the harness crate once (offline); the checks rebuild incrementally from /repo's tree
  (cd kani && RUSTFLAGS="--cfg aes_force_soft" cargo kani -Z stubbing --target-dir "$PWD/../target/kani" --only-codegen >/dev/null 2>&1 || echo "kani prebuild failed (checks will retry)")
fi
echo "setup done"
