import json, jsonschema, sys
m = json.load(open('/verif/MANIFEST.json'))
jsonschema.validate(m, json.load(open('/root/.vp/MANIFEST.schema.json')))
es = json.load(open('/root/.vp/EVIDENCE.schema.json'))
bad = 0
for c in m['checks']:
    try:
        e = json.load(open('/verif/' + c['evidence_file']))
        jsonschema.validate(e, es)
        ok = e['level'] == c['level_claimed']['category'] and e.get('violations', 0) == 0 and e['coverage'].get('inconclusive', 0) == 0
        print(c['property_id'], 'valid', 'level ok' if e['level'] == c['level_claimed']['category'] else 'LEVEL MISMATCH', 'violations=%s inconclusive=%s' % (e.get('violations'), e['coverage'].get('inconclusive')), 'tier', e['tier'], 'seed', e['seed'], 'wall', e['wall_s'])
        if not ok:
            bad += 1
    except Exception as ex:
        print(c['property_id'], 'INVALID', str(ex)[:200]); bad += 1
ids = {c['property_id'] for c in m['checks']} | {c['property_id'] for c in m.get('not_applicable', [])}
print('manifest ok; properties covered:', len(ids), 'problems:', bad)
sys.exit(1 if bad else 0)
