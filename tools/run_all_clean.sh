#!/bin/bash
# run every claimed check on the clean tree (refreshes evidence/), then validate manifest + evidence
cd /verif
git -C /repo diff --quiet || { echo "/repo has local changes"; exit 2; }
for c in $(python3 -c "import json; print(' '.join(x['property_id'] for x in json.load(open('MANIFEST.json'))['checks']))"); do
  s=$(date +%s); ./check $c > work/clean_$c.log 2>&1; rc=$?
  echo "$c exit=$rc secs=$(( $(date +%s) - s )) $(grep -c '^VIOLATION' work/clean_$c.log) violations, $(grep -c '^INCONCLUSIVE' work/clean_$c.log) inconclusive"
done
python3-vt tools/validate_all.py
