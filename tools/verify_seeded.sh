#!/bin/bash
# tools/verify_seeded.sh <seeded dir> [demo test name]  - confirm in a scratch worktree: existing lib tests pass
# with the patch, the demo fails with it and passes without it.
d="$(realpath $1)"; demo="${2:-seeded_demo}"
wt=/tmp/wt_verify
[ -d $wt ] || git -C /repo worktree add -q --detach $wt HEAD
cd $wt && git checkout -q --detach $(git -C /repo rev-parse HEAD) && git checkout -- . && git clean -fdq ciphercore-base/tests 2>/dev/null
mkdir -p ciphercore-base/tests && cp "$d"/$demo.rs ciphercore-base/tests/$demo.rs
echo "--- without patch: demo"; cargo test -p ciphercore-base --test $demo --offline 2>&1 | grep -E "^test result|error(\[|:)" | head -3
git apply "$d/patch.diff" || { echo "patch does not apply"; exit 2; }
echo "--- with patch: demo"; cargo test -p ciphercore-base --test $demo --offline 2>&1 | grep -E "^test result|error(\[|:)" | head -3
echo "--- with patch: existing lib tests"; cargo test --workspace --lib --offline 2>&1 | grep -E "^test result" | head -3
git checkout -- . ; rm -f ciphercore-base/tests/$demo.rs
