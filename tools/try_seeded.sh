#!/bin/bash
# tools/try_seeded.sh <seeded dir> <check id>...   apply the seeded patch to /repo, run the checks, undo.
d="$(realpath $1)"; shift
cd /repo || exit 2
git diff --quiet || { echo "/repo has local changes"; exit 2; }
git apply "$d/patch.diff" || { echo "patch does not apply"; exit 2; }
cd /verif
for c in "$@"; do
  echo "=== $c on $(basename $d)"
  ./check "$c" > "work/seeded_$(basename $d)_$c.log" 2>&1; rc=$?
  grep -c "^VIOLATION" "work/seeded_$(basename $d)_$c.log" | sed 's/^/violations: /'
  grep "^VIOLATION" -A1 "work/seeded_$(basename $d)_$c.log" | head -4 | cut -c1-300
  tail -n 1 "work/seeded_$(basename $d)_$c.log" | cut -c1-300
  echo "exit=$rc"
done
git -C /repo checkout -- .
git -C /repo status --short | head -3
