#!/bin/bash
# confirm every seeded change in a scratch worktree (outside /repo and /verif); logs to seeded/<id>/verify.log
cd /verif
for d in seeded/c*/; do
  demo=$(ls $d | grep -E "^seeded_demo.*\.rs$" | head -1 | sed 's/\.rs$//')
  [ -z "$demo" ] && continue
  tools/verify_seeded.sh $d $demo > $d/verify.log 2>&1
  echo "$(basename $d): $(tr '\n' ' ' < $d/verify.log | cut -c1-400)"
done
git -C /repo worktree remove --force /tmp/wt_verify 2>/dev/null; git -C /repo worktree prune
