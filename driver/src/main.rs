//! verif-driver: runs the *real* ciphercore pipeline functions (compiled from the
//! current /repo working tree) on programs described in a small JSON DSL, dumps the
//! resulting term DAGs (graphs) and node mappings, and evaluates graphs concretely with
//! the real evaluator (optionally with per-node overrides and in a three-party mode).
//!
//! Usage: verif-driver <jobs.json> <out.json>
//!   jobs.json = {"jobs":[JOB,...]}     out.json = {"results":[RESULT,...]}
//!
//! JOB = {
//!   "ctx": {"graphs":[{"nodes":[{"op":OP,"deps":[i..],"gdeps":[g..],"name":?, "ann":[..]?}],
//!                      "output":i, "ann":[..]?, "name":?}], "main": g},
//!   "stages": [{"op":"instantiate"|"inline"|"optimize"|"prepare_context"|"prepare_mpc"|
//!               "compile_context"|"uniquify"|"serde", "from":k?, ...}],
//!   "deep_equal": [[a,b],...],
//!   "evals": [{"ctx":k, "inputs":[VAL..], "overrides":{"g:n":VAL}, "seed":hex?}],
//!   "party_evals": [{"ctx":k, "inputs":[[VAL,VAL,VAL]..], "overrides":[{..},{..},{..}]}],
//!   "dump": [k...]?    (contexts to dump; default all)
//! }
//! OP = serde JSON of ciphercore_base::graphs::Operation, or {"ConstantDec":[TYPE, DEC]}
//! VAL = {"b": "<hex bytes>"} | {"v":[VAL..]}
use ciphercore_base::custom_ops::{run_instantiation_pass, ContextMappings, MappedContext};
use ciphercore_base::data_types::{ScalarType, Type};
use ciphercore_base::data_values::Value;
use ciphercore_base::evaluators::simple_evaluator::SimpleEvaluator;
use ciphercore_base::evaluators::Evaluator;
use ciphercore_base::graphs::{
    contexts_deep_equal, create_context, Context, Graph, GraphAnnotation, Node, NodeAnnotation,
    Operation,
};
use ciphercore_base::inline::inline_ops::{inline_operations, InlineConfig};
use ciphercore_base::mpc::mpc_compiler::{
    compile_context, prepare_context, prepare_for_mpc_evaluation, uniquify_prf_id, IOStatus,
};
use ciphercore_base::optimizer::optimize::optimize_context;
use ciphercore_base::random::PRNG;
use ciphercore_base::typed_value::TypedValue;
use ciphercore_base::typed_value_secret_shared::replicated_shares::ReplicatedShares;
use ciphercore_base::typed_value_secret_shared::TypedValueSecretShared;
use serde_json::{json, Map, Value as J};
use std::collections::HashMap;
use std::panic::{catch_unwind, AssertUnwindSafe};

type R<T> = std::result::Result<T, String>;

fn es<E: std::fmt::Display>(e: E) -> String {
    // anyhow-style errors carry backtraces; keep the first line only
    let s = format!("{e}");
    s.lines().next().unwrap_or("").to_string()
}

// ---------------------------------------------------------------- values
fn hex(bytes: &[u8]) -> String {
    let mut s = String::with_capacity(bytes.len() * 2);
    for b in bytes {
        s.push_str(&format!("{b:02x}"));
    }
    s
}
fn unhex(s: &str) -> R<Vec<u8>> {
    if s.len() % 2 != 0 {
        return Err("odd hex".into());
    }
    (0..s.len() / 2)
        .map(|i| u8::from_str_radix(&s[2 * i..2 * i + 2], 16).map_err(es))
        .collect()
}
fn val_to_json(v: &Value) -> J {
    v.access(
        |b| Ok(json!({ "b": hex(b) })),
        |vs| Ok(json!({"v": vs.iter().map(val_to_json).collect::<Vec<_>>()})),
    )
    .unwrap_or(json!({"err":"access"}))
}
fn json_to_val(j: &J) -> R<Value> {
    if let Some(b) = j.get("b") {
        Ok(Value::from_bytes(unhex(b.as_str().ok_or("b not str")?)?))
    } else if let Some(v) = j.get("v") {
        let mut out = vec![];
        for x in v.as_array().ok_or("v not array")? {
            out.push(json_to_val(x)?);
        }
        Ok(Value::from_vector(out))
    } else {
        Err(format!("bad VAL {j}"))
    }
}

fn st_bits(st: &ScalarType) -> u64 {
    st.size_in_bits()
}

/// DEC (nested decimal strings following the type) -> Value. Independent little-endian /
/// bit-packed encoder (does not use ciphercore's own from_flattened_array).
fn dec_to_val(t: &Type, j: &J) -> R<Value> {
    match t {
        Type::Scalar(st) => enc_flat(st, &[j.clone()]),
        Type::Array(_, st) => enc_flat(st, j.as_array().ok_or("array DEC must be list")?),
        Type::Vector(n, et) => {
            let a = j.as_array().ok_or("vector DEC must be list")?;
            if a.len() as u64 != *n {
                return Err("vector DEC length".into());
            }
            let mut out = vec![];
            for x in a {
                out.push(dec_to_val(et, x)?);
            }
            Ok(Value::from_vector(out))
        }
        Type::Tuple(ts) => {
            let a = j.as_array().ok_or("tuple DEC must be list")?;
            if a.len() != ts.len() {
                return Err("tuple DEC length".into());
            }
            let mut out = vec![];
            for (x, tt) in a.iter().zip(ts.iter()) {
                out.push(dec_to_val(tt, x)?);
            }
            Ok(Value::from_vector(out))
        }
        Type::NamedTuple(ts) => {
            let a = j.as_array().ok_or("ntuple DEC must be list")?;
            if a.len() != ts.len() {
                return Err("ntuple DEC length".into());
            }
            let mut out = vec![];
            for (x, (_, tt)) in a.iter().zip(ts.iter()) {
                out.push(dec_to_val(tt, x)?);
            }
            Ok(Value::from_vector(out))
        }
    }
}
fn enc_flat(st: &ScalarType, xs: &[J]) -> R<Value> {
    let w = st_bits(st);
    let mut nums: Vec<u128> = vec![];
    for x in xs {
        let s = match x {
            J::String(s) => s.clone(),
            other => other.to_string(),
        };
        nums.push(s.parse::<u128>().map_err(es)?);
    }
    if w == 1 {
        let mut bytes = vec![0u8; (nums.len() + 7) / 8];
        for (i, n) in nums.iter().enumerate() {
            if n & 1 == 1 {
                bytes[i / 8] |= 1 << (i % 8);
            }
        }
        Ok(Value::from_bytes(bytes))
    } else {
        let nb = (w / 8) as usize;
        let mut bytes = Vec::with_capacity(nb * nums.len());
        for n in nums {
            bytes.extend_from_slice(&n.to_le_bytes()[..nb]);
        }
        Ok(Value::from_bytes(bytes))
    }
}

// ---------------------------------------------------------------- building
fn parse_node_ann(j: &J) -> R<NodeAnnotation> {
    serde_json::from_value(j.clone()).map_err(es)
}
fn parse_graph_ann(j: &J) -> R<GraphAnnotation> {
    serde_json::from_value(j.clone()).map_err(es)
}
fn parse_op(j: &J) -> R<Operation> {
    if let Some(cd) = j.get("ConstantDec") {
        let t: Type = serde_json::from_value(cd[0].clone()).map_err(es)?;
        let v = dec_to_val(&t, &cd[1])?;
        return Ok(Operation::Constant(t, v));
    }
    serde_json::from_value(j.clone()).map_err(|e| format!("bad op {j}: {e}"))
}

fn build_context(spec: &J) -> R<Context> {
    let c = create_context().map_err(es)?;
    let mut graphs: Vec<Graph> = vec![];
    for gs in spec["graphs"].as_array().ok_or("graphs")? {
        let g = c.create_graph().map_err(es)?;
        let mut nodes: Vec<Node> = vec![];
        for ns in gs["nodes"].as_array().ok_or("nodes")? {
            let op = parse_op(&ns["op"])?;
            let deps: Vec<Node> = ns["deps"]
                .as_array()
                .map(|a| a.iter().map(|i| nodes[i.as_u64().unwrap() as usize].clone()).collect())
                .unwrap_or_default();
            let gdeps: Vec<Graph> = ns["gdeps"]
                .as_array()
                .map(|a| a.iter().map(|i| graphs[i.as_u64().unwrap() as usize].clone()).collect())
                .unwrap_or_default();
            let n = g
                .add_node(deps, gdeps, op)
                .map_err(|e| format!("add_node {} failed: {}", nodes.len(), es(e)))?;
            if let Some(name) = ns.get("name").and_then(|x| x.as_str()) {
                n.set_name(name).map_err(es)?;
            }
            if let Some(anns) = ns.get("ann").and_then(|x| x.as_array()) {
                for a in anns {
                    n.add_annotation(parse_node_ann(a)?).map_err(es)?;
                }
            }
            nodes.push(n);
        }
        let out = gs["output"].as_u64().ok_or("output")? as usize;
        g.set_output_node(nodes[out].clone()).map_err(es)?;
        if let Some(anns) = gs.get("ann").and_then(|x| x.as_array()) {
            for a in anns {
                g.add_annotation(parse_graph_ann(a)?).map_err(es)?;
            }
        }
        if let Some(name) = gs.get("name").and_then(|x| x.as_str()) {
            g.set_name(name).map_err(es)?;
        }
        g.finalize().map_err(es)?;
        graphs.push(g);
    }
    let main = spec["main"].as_u64().ok_or("main")? as usize;
    c.set_main_graph(graphs[main].clone()).map_err(es)?;
    c.finalize().map_err(es)?;
    Ok(c)
}

// ---------------------------------------------------------------- dumping
fn dump_value_dec(t: &Type, v: &Value) -> J {
    // readable rendering of constants: independent decoder from raw bytes
    match t {
        Type::Scalar(st) | Type::Array(_, st) => {
            let n: u64 = match t {
                Type::Array(s, _) => s.iter().product(),
                _ => 1,
            };
            let w = st_bits(st);
            v.access_bytes(|b| {
                let mut out = vec![];
                for i in 0..n as usize {
                    let x: u128 = if w == 1 {
                        ((b[i / 8] >> (i % 8)) & 1) as u128
                    } else {
                        let nb = (w / 8) as usize;
                        let mut buf = [0u8; 16];
                        buf[..nb].copy_from_slice(&b[i * nb..(i + 1) * nb]);
                        u128::from_le_bytes(buf)
                    };
                    out.push(J::String(x.to_string()));
                }
                Ok(J::Array(out))
            })
            .unwrap_or(J::Null)
        }
        Type::Vector(_, et) => v
            .access_vector(|vs| Ok(J::Array(vs.iter().map(|x| dump_value_dec(et, x)).collect())))
            .unwrap_or(J::Null),
        Type::Tuple(ts) => v
            .access_vector(|vs| {
                Ok(J::Array(
                    vs.iter().zip(ts.iter()).map(|(x, tt)| dump_value_dec(tt, x)).collect(),
                ))
            })
            .unwrap_or(J::Null),
        Type::NamedTuple(ts) => v
            .access_vector(|vs| {
                Ok(J::Array(
                    vs.iter().zip(ts.iter()).map(|(x, (_, tt))| dump_value_dec(tt, x)).collect(),
                ))
            })
            .unwrap_or(J::Null),
    }
}

fn dump_context(c: &Context) -> J {
    let mut graphs = vec![];
    for g in c.get_graphs() {
        let mut nodes = vec![];
        for n in g.get_nodes() {
            let op = n.get_operation();
            let mut m = Map::new();
            let opj = match &op {
                Operation::Constant(t, v) => {
                    m.insert("const".into(), dump_value_dec(t, v));
                    json!({"ConstantDec":[serde_json::to_value(t).unwrap(), dump_value_dec(t, v)]})
                }
                other => serde_json::to_value(other).unwrap_or(J::Null),
            };
            m.insert("op".into(), opj);
            if let Operation::Custom(co) = &op {
                m.insert("custom_name".into(), J::String(co.get_name()));
            }
            m.insert(
                "deps".into(),
                J::Array(n.get_node_dependencies().iter().map(|d| json!(d.get_id())).collect()),
            );
            let gd = n.get_graph_dependencies();
            if !gd.is_empty() {
                m.insert("gdeps".into(), J::Array(gd.iter().map(|d| json!(d.get_id())).collect()));
            }
            match n.get_type() {
                Ok(t) => {
                    m.insert("type".into(), serde_json::to_value(&t).unwrap());
                }
                Err(e) => {
                    m.insert("type_err".into(), J::String(es(e)));
                }
            }
            if let Ok(anns) = n.get_annotations() {
                if !anns.is_empty() {
                    m.insert(
                        "ann".into(),
                        J::Array(anns.iter().map(|a| serde_json::to_value(a).unwrap()).collect()),
                    );
                }
            }
            if let Ok(Some(name)) = n.get_name() {
                m.insert("name".into(), J::String(name));
            }
            nodes.push(J::Object(m));
        }
        let mut gm = Map::new();
        gm.insert("nodes".into(), J::Array(nodes));
        gm.insert("output".into(), json!(g.get_output_node().map(|n| n.get_id()).unwrap_or(u64::MAX)));
        if let Ok(anns) = g.get_annotations() {
            if !anns.is_empty() {
                gm.insert(
                    "ann".into(),
                    J::Array(anns.iter().map(|a| serde_json::to_value(a).unwrap()).collect()),
                );
            }
        }
        if let Ok(name) = g.get_name() {
            gm.insert("name".into(), J::String(name));
        }
        graphs.push(J::Object(gm));
    }
    json!({"graphs": graphs, "main": c.get_main_graph().map(|g| g.get_id()).unwrap_or(u64::MAX)})
}

fn dump_mapping(old: &Context, m: &ContextMappings) -> J {
    let mut out = Map::new();
    for g in old.get_graphs() {
        for n in g.get_nodes() {
            if m.contains_node(&n) {
                let nn = m.get_node(&n);
                let (gid, nid) = nn.get_global_id();
                out.insert(format!("{}:{}", g.get_id(), n.get_id()), json!([gid, nid]));
            }
        }
    }
    J::Object(out)
}

// ---------------------------------------------------------------- stages
fn parse_inline(j: &J) -> R<InlineConfig> {
    match j {
        J::Null => Ok(InlineConfig::default()),
        J::String(s) => {
            let mode = match s.as_str() {
                "simple" => json!("Simple"),
                "depth_default" => json!({"DepthOptimized":"Default"}),
                "depth_extreme" => json!({"DepthOptimized":"Extreme"}),
                "noop" => json!("Noop"),
                _ => return Err(format!("inline mode {s}")),
            };
            serde_json::from_value(json!({"default_mode": mode, "override_call_mode": null, "override_iterate_mode": null}))
                .map_err(es)
        }
        other => serde_json::from_value(other.clone()).map_err(es),
    }
}
fn parse_io(j: &J) -> R<Vec<IOStatus>> {
    let mut out = vec![];
    for x in j.as_array().ok_or("io list")? {
        out.push(match x {
            J::String(s) if s == "public" => IOStatus::Public,
            J::String(s) if s == "shared" => IOStatus::Shared,
            J::Number(n) => IOStatus::Party(n.as_u64().ok_or("party id")?),
            _ => return Err(format!("io status {x}")),
        });
    }
    Ok(out)
}

fn run_stage(ctxs: &[Option<Context>], idx: usize, st: &J) -> R<(Context, Option<(usize, ContextMappings)>)> {
    let from = st.get("from").and_then(|x| x.as_u64()).map(|x| x as usize).unwrap_or(idx);
    let src = ctxs
        .get(from)
        .and_then(|c| c.clone())
        .ok_or(format!("stage source {from} missing"))?;
    let op = st["op"].as_str().ok_or("stage op")?;
    let mc: MappedContext = match op {
        "instantiate" => run_instantiation_pass(src.clone()).map_err(es)?,
        "inline" => inline_operations(&src, parse_inline(&st["inline"])?).map_err(es)?,
        "optimize" => {
            let ev = SimpleEvaluator::new(None).map_err(es)?;
            optimize_context(&src, ev).map_err(es)?
        }
        "prepare_context" => {
            let ev = SimpleEvaluator::new(None).map_err(es)?;
            prepare_context(src.clone(), parse_inline(&st["inline"])?, ev, false).map_err(es)?
        }
        "prepare_mpc" => prepare_for_mpc_evaluation(
            &src,
            vec![parse_io(&st["inputs"])?],
            vec![parse_io(&st["outputs"])?],
            parse_inline(&st["inline"])?,
        )
        .map_err(es)?,
        "compile_context" => compile_context(
            src.clone(),
            parse_io(&st["inputs"])?,
            parse_io(&st["outputs"])?,
            parse_inline(&st["inline"])?,
            || SimpleEvaluator::new(None),
        )
        .map_err(es)?,
        "uniquify" => uniquify_prf_id(src.clone()).map_err(es)?,
        "serde" => {
            let s = serde_json::to_string(&src).map_err(es)?;
            let c2: Context = serde_json::from_str(&s).map_err(es)?;
            return Ok((c2, None));
        }
        _ => return Err(format!("unknown stage {op}")),
    };
    let m = mc.mappings.clone();
    Ok((mc.get_context(), Some((from, m))))
}

// ---------------------------------------------------------------- evaluation
struct Overriding {
    inner: SimpleEvaluator,
    overrides: HashMap<(u64, u64), Value>,
    trace: HashMap<(u64, u64), Value>,
}
impl Evaluator for Overriding {
    fn preprocess(&mut self, context: &Context) -> ciphercore_base::errors::Result<()> {
        self.inner.preprocess(context)
    }
    fn evaluate_node(
        &mut self,
        node: Node,
        dependencies_values: Vec<Value>,
    ) -> ciphercore_base::errors::Result<Value> {
        let id = node.get_global_id();
        let v = if let Some(v) = self.overrides.get(&id) {
            v.clone()
        } else {
            self.inner.evaluate_node(node, dependencies_values)?
        };
        self.trace.insert(id, v.clone());
        Ok(v)
    }
}

fn parse_seed(j: Option<&J>) -> R<Option<[u8; 16]>> {
    match j.and_then(|x| x.as_str()) {
        None => Ok(None),
        Some(s) => {
            let b = unhex(s)?;
            if b.len() != 16 {
                return Err("seed must be 16 bytes".into());
            }
            let mut a = [0u8; 16];
            a.copy_from_slice(&b);
            Ok(Some(a))
        }
    }
}
fn parse_overrides(j: Option<&J>) -> R<HashMap<(u64, u64), Value>> {
    let mut m = HashMap::new();
    if let Some(J::Object(o)) = j {
        for (k, v) in o {
            let mut it = k.split(':');
            let g: u64 = it.next().ok_or("ovr key")?.parse().map_err(es)?;
            let n: u64 = it.next().ok_or("ovr key")?.parse().map_err(es)?;
            m.insert((g, n), json_to_val(v)?);
        }
    }
    Ok(m)
}

/// Global (single evaluator) evaluation through the trait's real evaluate_context loop.
fn run_eval(c: &Context, e: &J) -> R<J> {
    let mut inputs = vec![];
    for x in e["inputs"].as_array().ok_or("inputs")? {
        inputs.push(json_to_val(x)?);
    }
    let mut ev = Overriding {
        inner: SimpleEvaluator::new(parse_seed(e.get("seed"))?).map_err(es)?,
        overrides: parse_overrides(e.get("overrides"))?,
        trace: HashMap::new(),
    };
    ev.preprocess(c).map_err(es)?;
    let g = c.get_main_graph().map_err(es)?;
    // record inputs of the main graph
    let mut k = 0;
    for n in g.get_nodes() {
        if n.get_operation().is_input() {
            if k < inputs.len() {
                ev.trace.insert(n.get_global_id(), inputs[k].clone());
            }
            k += 1;
        }
    }
    let res = ev.evaluate_context(c.clone(), inputs);
    let mut nodes = Map::new();
    let mut type_ok = true;
    let mut bad = vec![];
    let gid = g.get_id();
    for n in g.get_nodes() {
        if let Some(v) = ev.trace.get(&(gid, n.get_id())) {
            nodes.insert(format!("{}", n.get_id()), val_to_json(v));
            if let Ok(t) = n.get_type() {
                match v.check_type(t) {
                    Ok(true) => {}
                    _ => {
                        type_ok = false;
                        bad.push(n.get_id());
                    }
                }
            }
        }
    }
    Ok(match res {
        Ok(v) => json!({"ok": true, "output": val_to_json(&v), "nodes": nodes, "check_type_ok": type_ok, "check_type_bad": bad}),
        Err(err) => json!({"ok": false, "error": es(err), "nodes": nodes, "check_type_ok": type_ok, "check_type_bad": bad}),
    })
}

/// Three-party execution of an inlined graph: three independent real evaluators, each
/// evaluating every node on its own values; a node annotated Send(s, r) gives party r the
/// value party s holds for the node's dependency. Inputs are given per party.
fn run_party_eval(c: &Context, e: &J) -> R<J> {
    let g = c.get_main_graph().map_err(es)?;
    let mut evs = vec![];
    for p in 0..3 {
        let ovr = parse_overrides(e.get("overrides").and_then(|o| o.get(p)))?;
        let seed = parse_seed(e.get("seeds").and_then(|s| s.get(p)))?;
        let mut ev = Overriding {
            inner: SimpleEvaluator::new(seed).map_err(es)?,
            overrides: ovr,
            trace: HashMap::new(),
        };
        ev.preprocess(c).map_err(es)?;
        evs.push(ev);
    }
    let inputs = e["inputs"].as_array().ok_or("inputs")?;
    let nodes = g.get_nodes();
    let mut vals: Vec<Vec<Option<Value>>> = vec![vec![None; nodes.len()]; 3];
    let mut errs: Vec<Option<String>> = vec![None, None, None];
    let mut k = 0;
    let mut sends = vec![];
    for n in nodes.iter() {
        let id = n.get_id() as usize;
        let op = n.get_operation();
        if op.is_input() {
            for p in 0..3 {
                vals[p][id] = Some(json_to_val(&inputs[k][p])?);
            }
            k += 1;
            continue;
        }
        let mut send: Option<(u64, u64)> = None;
        for a in n.get_annotations().map_err(es)? {
            if let NodeAnnotation::Send(s, r) = a {
                send = Some((s, r));
            }
        }
        for p in 0..3 {
            if errs[p].is_some() {
                continue;
            }
            if let Some((s, r)) = send {
                if r as usize == p {
                    // receive what the sender holds for this (NOP) node's dependency
                    let dep = n.get_node_dependencies()[0].get_id() as usize;
                    vals[p][id] = vals[s as usize][dep].clone();
                    if vals[p][id].is_none() {
                        errs[p] = Some(format!("sender {s} has no value for node {dep}"));
                    }
                    continue;
                }
            }
            let mut deps = vec![];
            let mut missing = false;
            for d in n.get_node_dependencies() {
                match &vals[p][d.get_id() as usize] {
                    Some(v) => deps.push(v.clone()),
                    None => missing = true,
                }
            }
            if missing {
                errs[p] = Some(format!("missing dependency at node {id}"));
                continue;
            }
            let r = catch_unwind(AssertUnwindSafe(|| evs[p].evaluate_node(n.clone(), deps)));
            match r {
                Ok(Ok(v)) => vals[p][id] = Some(v),
                Ok(Err(err)) => errs[p] = Some(format!("node {id}: {}", es(err))),
                Err(_) => errs[p] = Some(format!("node {id}: panic")),
            }
        }
        if let Some(sr) = send {
            sends.push(json!([id, sr.0, sr.1]));
        }
    }
    let out_id = g.get_output_node().map_err(es)?.get_id() as usize;
    let want_all = e.get("all_nodes").and_then(|x| x.as_bool()).unwrap_or(false);
    let mut parties = vec![];
    for p in 0..3 {
        let mut m = Map::new();
        m.insert("error".into(), errs[p].clone().map(J::String).unwrap_or(J::Null));
        m.insert(
            "output".into(),
            vals[p][out_id].as_ref().map(val_to_json).unwrap_or(J::Null),
        );
        if want_all {
            let mut nm = Map::new();
            for (i, v) in vals[p].iter().enumerate() {
                if let Some(v) = v {
                    nm.insert(format!("{i}"), val_to_json(v));
                }
            }
            m.insert("nodes".into(), J::Object(nm));
        } else {
            // received messages only
            let mut nm = Map::new();
            for s in &sends {
                let id = s[0].as_u64().unwrap() as usize;
                if s[2].as_u64().unwrap() as usize == p {
                    if let Some(v) = &vals[p][id] {
                        nm.insert(format!("{id}"), val_to_json(v));
                    }
                }
            }
            m.insert("received".into(), J::Object(nm));
        }
        parties.push(J::Object(m));
    }
    Ok(json!({"parties": parties, "sends": sends}))
}

// ---------------------------------------------------------------- secret sharing of typed values (C14 supporting family)
fn run_sharing(e: &J) -> R<J> {
    let t: Type = serde_json::from_value(e["type"].clone()).map_err(es)?;
    let v = json_to_val(&e["value"])?;
    let seed = parse_seed(e.get("seed"))?;
    let tv = TypedValue::new(t.clone(), v).map_err(es)?;
    let mut out = Map::new();
    let mut prng = PRNG::new(seed).map_err(es)?;
    let shared = tv.secret_share(&mut prng).map_err(es)?;
    out.insert("secret_share".into(), val_to_json(&shared.value));
    let rev = shared.secret_share_reveal().map_err(es)?;
    out.insert("reveal".into(), val_to_json(&rev.value));
    out.insert("reveal_type_ok".into(), J::Bool(rev.t == t));
    let mut prng = PRNG::new(seed).map_err(es)?;
    let local = tv.get_local_shares_for_each_party(&mut prng).map_err(es)?;
    out.insert("local".into(), J::Array(local.iter().map(|x| val_to_json(&x.value)).collect()));
    let mut prng = PRNG::new(seed).map_err(es)?;
    let rs = ReplicatedShares::secret_share_for_parties(tv.clone(), &mut prng).map_err(es)?;
    let mut tuples = vec![];
    for r in rs.iter() {
        tuples.push(val_to_json(&r.to_tuple().map_err(es)?.value));
    }
    out.insert("rs_parties".into(), J::Array(tuples));
    let mut prng = PRNG::new(seed).map_err(es)?;
    let rl = ReplicatedShares::secret_share_for_local_evaluation(tv.clone(), &mut prng).map_err(es)?;
    out.insert("rs_local_reveal".into(), val_to_json(&rl.reveal().map_err(es)?.value));
    if let Type::Array(_, st) = &t {
        // mpc::utils::share_vector on the flattened elements
        let data = tv.value.to_flattened_array_u128(t.clone()).map_err(es)?;
        let mut prng = PRNG::new(seed).map_err(es)?;
        let sv = ciphercore_base::mpc::utils::share_vector(&mut prng, &data, *st).map_err(es)?;
        out.insert("share_vector".into(), J::Array(sv.iter().map(val_to_json).collect()));
    }
    Ok(J::Object(out))
}

// ---------------------------------------------------------------- job
fn run_job(job: &J) -> J {
    let mut res = Map::new();
    let mut ctxs: Vec<Option<Context>> = vec![];
    let mut ctx_json: Vec<J> = vec![];
    let t0 = std::time::Instant::now();
    match catch_unwind(AssertUnwindSafe(|| build_context(&job["ctx"]))) {
        Ok(Ok(c)) => {
            ctxs.push(Some(c));
            ctx_json.push(json!({"ok": true}));
        }
        Ok(Err(e)) => {
            ctxs.push(None);
            ctx_json.push(json!({"ok": false, "error": e}));
        }
        Err(_) => {
            ctxs.push(None);
            ctx_json.push(json!({"ok": false, "error": "PANIC while building the context", "panic": true}));
        }
    }
    if let Some(stages) = job.get("stages").and_then(|x| x.as_array()) {
        for (i, st) in stages.iter().enumerate() {
            let r = catch_unwind(AssertUnwindSafe(|| run_stage(&ctxs, i, st)));
            match r {
                Ok(Ok((c, m))) => {
                    let mut info = Map::new();
                    info.insert("ok".into(), J::Bool(true));
                    if let Some((from, m)) = m {
                        info.insert("from".into(), json!(from));
                        if let Some(old) = &ctxs[from] {
                            info.insert("mapping".into(), dump_mapping(old, &m));
                        }
                    }
                    ctxs.push(Some(c));
                    ctx_json.push(J::Object(info));
                }
                Ok(Err(e)) => {
                    ctxs.push(None);
                    ctx_json.push(json!({"ok": false, "error": e}));
                }
                Err(_) => {
                    ctxs.push(None);
                    ctx_json.push(json!({"ok": false, "error": "PANIC", "panic": true}));
                }
            }
        }
    }
    let dump_sel: Option<Vec<usize>> = job
        .get("dump")
        .and_then(|x| x.as_array())
        .map(|a| a.iter().map(|x| x.as_u64().unwrap() as usize).collect());
    for (i, c) in ctxs.iter().enumerate() {
        if let Some(c) = c {
            let want = dump_sel.as_ref().map(|s| s.contains(&i)).unwrap_or(true);
            if want {
                ctx_json[i]
                    .as_object_mut()
                    .unwrap()
                    .insert("dump".into(), dump_context(c));
            }
        }
    }
    res.insert("contexts".into(), J::Array(ctx_json));
    if let Some(des) = job.get("deep_equal").and_then(|x| x.as_array()) {
        let mut out = vec![];
        for p in des {
            let a = p[0].as_u64().unwrap() as usize;
            let b = p[1].as_u64().unwrap() as usize;
            out.push(match (&ctxs[a], &ctxs[b]) {
                (Some(x), Some(y)) => J::Bool(contexts_deep_equal(x, y)),
                _ => J::Null,
            });
        }
        res.insert("deep_equal".into(), J::Array(out));
    }
    if let Some(evals) = job.get("evals").and_then(|x| x.as_array()) {
        let mut out = vec![];
        for e in evals {
            let k = e["ctx"].as_u64().unwrap_or(0) as usize;
            let r = match &ctxs[k] {
                Some(c) => match catch_unwind(AssertUnwindSafe(|| run_eval(c, e))) {
                    Ok(Ok(j)) => j,
                    Ok(Err(s)) => json!({"ok": false, "error": s, "driver_error": true}),
                    Err(_) => json!({"ok": false, "error": "PANIC", "panic": true}),
                },
                None => json!({"ok": false, "error": "no context", "driver_error": true}),
            };
            out.push(r);
        }
        res.insert("evals".into(), J::Array(out));
    }
    if let Some(evals) = job.get("party_evals").and_then(|x| x.as_array()) {
        let mut out = vec![];
        for e in evals {
            let k = e["ctx"].as_u64().unwrap_or(0) as usize;
            let r = match &ctxs[k] {
                Some(c) => match catch_unwind(AssertUnwindSafe(|| run_party_eval(c, e))) {
                    Ok(Ok(j)) => j,
                    Ok(Err(s)) => json!({"error": s, "driver_error": true}),
                    Err(_) => json!({"error": "PANIC", "panic": true}),
                },
                None => json!({"error": "no context", "driver_error": true}),
            };
            out.push(r);
        }
        res.insert("party_evals".into(), J::Array(out));
    }
    if let Some(sh) = job.get("sharings").and_then(|x| x.as_array()) {
        let mut out = vec![];
        for e in sh {
            out.push(match catch_unwind(AssertUnwindSafe(|| run_sharing(e))) {
                Ok(Ok(j)) => j,
                Ok(Err(s)) => json!({"error": s}),
                Err(_) => json!({"error": "PANIC", "panic": true}),
            });
        }
        res.insert("sharings".into(), J::Array(out));
    }
    res.insert("wall_ms".into(), json!(t0.elapsed().as_millis() as u64));
    if let Some(id) = job.get("id") {
        res.insert("id".into(), id.clone());
    }
    J::Object(res)
}

fn main() {
    let args: Vec<String> = std::env::args().collect();
    if args.len() != 3 {
        eprintln!("usage: verif-driver <jobs.json> <out.json>");
        std::process::exit(2);
    }
    // silence panic messages (they are reported in the JSON)
    std::panic::set_hook(Box::new(|_| {}));
    let txt = std::fs::read_to_string(&args[1]).expect("read jobs");
    let jobs: J = serde_json::from_str(&txt).expect("parse jobs");
    let mut results = vec![];
    for job in jobs["jobs"].as_array().expect("jobs") {
        let r = catch_unwind(AssertUnwindSafe(|| run_job(job)));
        results.push(match r {
            Ok(j) => j,
            Err(_) => json!({"fatal": "PANIC in job"}),
        });
    }
    std::fs::write(&args[2], serde_json::to_string(&json!({ "results": results })).unwrap())
        .expect("write out");
}
