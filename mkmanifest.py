#!/usr/bin/env python3
"""Regenerates MANIFEST.json from the table below (kept in one place so it stays valid)."""
import json, os

HERE = os.path.dirname(os.path.abspath(__file__))

CHECKS = {}
NOT_APPLICABLE = {}

def chk(pid, engine, category, text, note, technique, design_ref, thorough=True):
    CHECKS[pid] = dict(
        property_id=pid,
        quick_cmd="./check %s" % pid,
        evidence_file="evidence/%s.json" % pid,
        replay_cmd_template="./check --replay {path}",
        engine=engine,
        level_claimed=dict(category=category, text=text, design_ref=design_ref),
        level_note=note,
        technique=technique,
    )
    if thorough:
        CHECKS[pid]["thorough_cmd"] = "VERIF_TIER=thorough ./check %s" % pid

exec(open(os.path.join(HERE, "manifest_table.py")).read())

ALL = ["C%02d" % i for i in range(1, 21)]
for p in ALL:
    assert (p in CHECKS) != (p in NOT_APPLICABLE), p

m = dict(
    version=1,
    setup_cmd="./setup.sh",
    hooks=HOOKS,
    engines=ENGINES,
    checks=[CHECKS[p] for p in ALL if p in CHECKS],
    not_applicable=[dict(property_id=p, reason=NOT_APPLICABLE[p]) for p in ALL if p in NOT_APPLICABLE],
    notes=NOTES,
)
json.dump(m, open(os.path.join(HERE, "MANIFEST.json"), "w"), indent=1)
print("MANIFEST.json: %d checks, %d not applicable" % (len(m["checks"]), len(m["not_applicable"])))
