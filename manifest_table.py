# Table of claimed checks; executed by mkmanifest.py (chk, CHECKS, NOT_APPLICABLE in scope).
HOOKS = dict(
    guard="verif-hooks (cargo feature of ciphercore-base)",
    enable="harness crates depend on /repo/ciphercore-base by path with features=[\"verif-hooks\"]; the graph-SMT driver needs no hooks",
    baseline_off_cmd="cd /repo && cargo test --workspace --no-fail-fast --offline",
    source_commits=["2dd9392", "2c213be"],
    add_only=True,
)
K_NOTE = ("Trusted: Kani 0.68 / CBMC 6.11 (cadical); the harness-side specifications (wrapping/masking arithmetic written independently in the harness); stubs: Backtrace::capture, alloc::fmt::format, "
          "anyhow::__private::format_err (error construction is either reported as failure or replaced by an opaque never-dereferenced handle); harness values are leaked. Unwinding assertions on.")

ENGINES = [
    dict(name="kani-kernels", path="kani/ + kcheck/", serves_properties=["C09", "C10", "C13", "C14"],
         kind_free_text="Kani proof harnesses (kani::any inputs, #[kani::unwind]) over the real leaf kernels of ciphercore-base (bytes.rs, slices.rs, broadcast.rs, random.rs, evaluator free functions), "
                        "built from /repo's working tree with the verif-hooks feature; failing harnesses are replayed natively with Kani's concrete playback before a VIOLATION is printed"),
    dict(name="graph-smt", path="driver/ + symg/",
         serves_properties=["C01", "C02", "C03", "C04", "C05", "C06", "C07", "C08", "C16", "C17", "C18"],
         kind_free_text="Rust driver linked against /repo's current tree runs the real instantiate/inline/compile/optimize functions and dumps the term DAGs they build; "
                        "a Python interpreter turns each DAG 1:1 into z3 bit-vector terms (inputs, randomness, junk symbolic) and z3/cvc5 decide the property; models are replayed on the real evaluator"),
]
NOTES = "See DESIGN.md. Exit codes: 0 held within the stated bounds, 1 VIOLATION (replayed natively), 2 inconclusive (solver unknown/timeout, unsupported op, translator-validation mismatch)."

G_NOTE = ("Trusted: the SMT semantics of the primitive operations in symg/interp.py (validated on every checked graph against the real SimpleEvaluator node by node on boundary vectors), "
          "z3 5.1 / cvc5 1.0, the driver's dump. Programs are generated (bounded families), inputs are decided by the solver.")

chk("C01", "graph-smt", "translation_validation",
    "Bounded translation validation of the MPC compiler: for each generated source graph (43 single-operation/composition templates, Call/Iterate wrappers in all 3 inline modes, 40 random typed DAGs; "
    "8-bit twin plus one wide scalar type each; covering rotation of owner vectors in {0,1,2,public,shared}^n, all 8 output sets) the real compile_context output is symbolically executed and the solver shows "
    "revealed output (or sum of the three output shares) = source output for ALL inputs, ALL input sharings and ALL Random/PRF values. Programs are sampled, values are not.",
    G_NOTE + " PRF idealised as arbitrary outputs under (key, iv, type) congruence.",
    "SMT (z3, sum-of-monomials normalisation + QF_BV) equivalence of source graph vs real compiler output, inputs/sharings/randomness symbolic", "DESIGN.md §5 C01")

chk("C02", "graph-smt", "translation_validation",
    "Three-view symbolic execution of the real compile_context output for the same program families as C01 plus the 8-bit bit-level protocols (B2A with its extra key exchange, A2B, A2B(x+y)->B2A, shared-bit AND/XOR): each party evaluates the whole graph on its own inputs, fresh junk for everything it does not own, "
    "its own random tape, and receives a value only at Send-annotated nodes; the solver shows that every designated output party's output equals the source result (for shared outputs: neighbour consistency and "
    "reconstruction) for ALL inputs, junk and tapes. A dropped or mis-addressed Send, a PRF under a key the party does not hold or a share read from the slot the party does not hold yields a model that is replayed "
    "in a three-party executor built on the real Evaluator::evaluate_node. Non-recipient queries must be sat (vacuity witness).",
    G_NOTE + " Execution model as stated in the property's observe_at (not stored in the repository).",
    "SMT (z3) three-view symbolic execution of the compiled graph with junk and per-party tapes universally quantified", "DESIGN.md §5 C02")

chk("C03", "graph-smt", "other",
    "Exact, bounded: for BIT-typed programs (and, xor, and-xor, and-and, majority, vector and, and-sum; owners with at least two distinct parties; 6 output sets; 3 inline modes) and each observer party, the view (inputs, own randomness, "
    "PRF outputs under held keys, every value delivered at a Send(.,P) node, own output) is built from the real compile_context output in the three-view semantics with idealised PRFs; the unknown tape (<= 12 bits) is unrolled inside one SMT query that asks for "
    "two other-party input vectors with the same output for the observer whose view-value counts differ. unsat = identical view distributions for every admissible pair. Solver models are replayed by enumerating the tape in the real three-party executor. "
    "Second tier (fresh-mask simulation, DESIGN 11.6) for ring programs at u8..i128 and A2B / B2A / MixedMultiply / Truncate protocols: per observer every delivered element must be shown by the solver to carry a fresh uniform mask (injectivity; joint injectivity for oblivious-transfer groups), "
    "to be determined by the observer's data and already justified messages (2-copy query) or, for a recipient, by its own output (injectivity of the locally recomputed output); a VIOLATION needs a deterministic distinguisher computable from the view (independent of the unknown tape: unsat; dependent on other-party inputs with equal own output: sat) "
    "confirmed in the real three-party executor over several tapes; observers neither proved nor refuted are counted as undecided and are outside the claim, as are shared inputs, permutation/sort programs and larger exact tapes.",
    G_NOTE + " PRF outputs idealised as independent uniform bits per (key term, counter); PRF key hand-over messages dropped as bare random draws (checked not to occur in other messages).",
    "SMT (z3 QF_BV): exact tape counting over the real compiled graph's view terms (BIT programs) + solver-decided fresh-mask simulation with deterministic-distinguisher counterexamples (wide types, conversion/truncation/mixed-multiply protocols)", "DESIGN.md §5 C03, §11, §11.6")

chk("C04", "graph-smt", "other",
    "(a) For every generated compiled program (ring templates, Call/Iterate wrappers in all 3 inline modes, bit-level protocol templates that request several masks from one key: OT, Truncate2K, A2B/B2A, permutation/sort; both the staged pre-optimiser graph and the final compile_context output) "
    "the counters of all PRF/PermutationFromPRF nodes are collected and shown pairwise distinct; for equal counters the solver decides whether the two key terms can differ. "
    "(b) For optimiser inputs containing Random/PRF nodes each randomising node of the output is tied to its preimage under the returned mapping; a merged, invented or constant-folded randomising node, or a value difference under tied tapes (solver-decided), is a violation. Exploration over generated programs; the per-program facts are exact.",
    G_NOTE, "enumeration of PRF counters on real compiler output + SMT key-term (dis)equality and tied-tape equivalence", "DESIGN.md §5 C04")

chk("C05", "graph-smt", "other",
    "Bounded symbolic check of the compiled Truncate protocols (real TruncateMPC2K / TruncateMPC through compile_context): for INT8..INT64/UINT8..UINT64, boundary k (all k thorough), owners {0,1,2,shared,public}, 7 output sets, 3 inline modes, "
    "the solver shows for ALL in-range inputs, input sharings and PRF values that result - floor(x/2^k) is 0 or 1, globally and for every output party in the three-view semantics; general divisors (signed 8..64 bit): |result - x/d| <= 1 under the documented no-wrap-around precondition; public operands exact.",
    G_NOTE + " Division by non-power-of-two constants encoded by the division lemma and decided by cvc5 --solve-bv-as-int=sum.",
    "SMT (z3 QF_BV, cvc5 bv-as-int) bounded-error check of the real compiled truncation protocols, inputs/sharings/PRF values symbolic", "DESIGN.md §5 C05")

chk("C06", "graph-smt", "translation_validation",
    "Bounded translation validation of optimize_context: for real compiler output (the pre-optimiser graph U of sampled C01 programs) and for each generated inlined graph (grammar biased to what the four passes rewrite: constants, tuple/vector/zip/a2v getters, A2B/B2A chains, duplicates, "
    "dangling nodes, unused inputs, Send-annotated NOPs, Random/PRF) the solver shows for ALL inputs and random draws that the output and every node the returned mapping still maps compute the same value, and (three-view) "
    "that every party's output is unchanged, which is what keeping Send markers on same-valued nodes means; input interface, mapped-node types and recorded-vs-reinferred types (serde round trip) are compared on the dumps.",
    G_NOTE, "SMT (z3 QF_BV) per-mapped-node equivalence of graph vs real optimiser output, inputs and randomness symbolic", "DESIGN.md §5 C06")

chk("C07", "graph-smt", "translation_validation",
    "Bounded translation validation of inline_operations: contexts with Iterate over bodies of every state kind (empty, associative incl. a non-commutative affine-composition body, one-bit, K-bit small state with batching, general tuple state), "
    "nested Calls (depth <= 3) and bodies that draw randomness, vector lengths 0,1,16 plus seed-chosen lengths up to 40 (all 0..40 thorough), modes Simple / DepthOptimized(Default) / DepthOptimized(Extreme) and per-operation overrides: "
    "the solver shows reference Call/Iterate semantics = inlined graph for ALL inputs. Randomising bodies: one fresh draw per executed copy.",
    G_NOTE + " Reference semantics of Call/Iterate transcribed from evaluators.rs:25-61 and cross-checked on the real evaluator per program.",
    "SMT (z3/cvc5) equivalence of reference fold semantics vs real inliner output, inputs symbolic", "DESIGN.md §5 C07")

chk("C08", "graph-smt", "translation_validation",
    "Totality of run_instantiation_pass observed on generated contexts that mix 2-5 library custom operations, in particular all pairs/triples of parameterisations of one operation on the same argument types (the collision class); "
    "meaning: each custom node's value in the mixed instantiated+inlined context is compared by the solver, for ALL inputs, with its stand-alone instantiation and, for exact operations, with its bit-vector library definition (comparisons, min/max, mux, adder, clip, long division, integer-key sort).",
    G_NOTE, "run of the real instantiation pass + SMT equivalence (z3 QF_BV) per custom node against stand-alone instantiation and bit-vector spec", "DESIGN.md §5 C08")

chk("C09", "kani-kernels", "model_checking",
    "Bounded model checking (Kani/CBMC) of the index arithmetic shared by typing rules and evaluator loops: slices (all i64 begin/end/step, axis <= 4; rank-2 with arbitrary elements), NumPy shape broadcasting, "
    "number/index conversion, broadcast_to_shape, inverse permutation on arbitrary index arrays: no panic, no overflow, accepted => in bounds. NOT whole-graph evaluation; functions taking ciphercore Types are out of reach and only observed by the graph-SMT engine's per-node check_type/catch_unwind (sampled).",
    K_NOTE, "Kani/CBMC bounded model checking of the real index-arithmetic kernels, all integer inputs symbolic", "DESIGN.md §5 C09")

chk("C10", "kani-kernels", "model_checking",
    "Bounded model checking (Kani/CBMC) of the modular arithmetic and byte decoding kernels that every arithmetic operation of the evaluator is built from (bytes.rs add/sub/mul/dot/sum on u64 and u128 paths for every modulus, sign extension, broadcast_to_shape) against an independent wrapping/masking spec for ALL operand values incl. >= 2^64. "
    "The per-operation evaluator code that takes Types/Values is out of CBMC's reach; it is compared with the independent NumPy-style interpreter on boundary vectors (values >= 2^64 included) for ~300 one-operation graphs and ~130 random short programs over all 11 scalar types in this check (sampled, not solver-decided).",
    K_NOTE, "Kani/CBMC bounded model checking of the real arithmetic kernels vs modular spec, operands symbolic", "DESIGN.md §5 C10")

chk("C13", "kani-kernels", "model_checking",
    "Bounded model checking (Kani/CBMC), byte half only: integer -> bytes -> integer through vec_to_bytes / vec_u128_from_bytes / vec_u64_from_bytes for source integer type x target scalar type instantiations (12 quick, 20 thorough), all values: value mod 2^w, sign-extended; "
    "bit arrays of every length 1..17 packed LSB-first without stray bits; non-bit inputs rejected. JSON form and Type-recursive layout check are outside the claim.",
    K_NOTE, "Kani/CBMC bounded model checking of the real integer/byte conversion kernels, all values symbolic", "DESIGN.md §5 C13")

chk("C14", "kani-kernels", "model_checking",
    "Bounded model checking (Kani/CBMC) at the arithmetic leaf that the sharing code applies to every scalar/array leaf: for every scalar width, every secret and every pair of draws, v0+v1+(v-v0-v1) = v byte for byte, and the pair of shares each party holds is an injective (hence bijective, hence uniform) function of the draws. "
    "The Type-recursive functions (secret_share, reveal, get_local_shares_for_each_party, ReplicatedShares, share_vector) are run natively on typed values of all scalar types, ragged bit arrays and nested containers "
    "and checked for reconstruction and the per-party layout (sampled, not solver-decided).",
    K_NOTE + " PRNG draws modelled as arbitrary valid values.", "Kani/CBMC bounded model checking of share/reveal arithmetic kernels, secret and draws symbolic", "DESIGN.md §5 C14")

chk("C16", "graph-smt", "other",
    "Bounded symbolic equivalence: for each comparison/min/max operation, signedness, bit width (1..17,31..33,63,64,128 quick; 1..64,96,127,128 thorough), broadcasting pattern and inline mode, the graph built by the real instantiate code is "
    "symbolically executed and the solver shows it equals bvult/bvslt/.../ite on the encoded integers for ALL operand values (unsat), i.e. exhaustive in the operands at every listed width. Not a proof over all widths.",
    G_NOTE, "SMT (z3 QF_BV) equivalence of the real generated circuit vs bit-vector spec, all operands symbolic", "DESIGN.md §5 C16")

chk("C17", "graph-smt", "other",
    "Bounded symbolic equivalence: BinaryAdd (widths 1..128 powers of two, with and without carry-out) vs bvadd and the (w+1)-th sum bit; Mux vs ite for bit and integer choices with broadcasting; "
    "Clip2K vs clamp for all k at 8/16 bits and boundary k at 32/64 bits (all k thorough); LongDivision signed/unsigned at 4 and 8 bits vs the floored-division lemma. "
    "All operands are symbolic; unsat = exact for every operand at that width. Wider long division is outside the bound (solver does not finish).",
    G_NOTE, "SMT (z3 QF_BV) equivalence of the real generated circuit vs bit-vector spec, all operands symbolic", "DESIGN.md §5 C17")

chk("C18", "graph-smt", "other",
    "Solver-decided for all inputs: (1) the instantiated SortByIntegerKey graph for all 11 key types vs a closed-form numeric stable sort (sign handling, row permutation applied to every column); (2) ApplyPermutation followed by its inverse (both orders) is the identity for all valid permutations; "
    "(3) compiled ApplyPermutation (private data, public permutation) equals the source for all data, permutations and tapes. SAMPLED, not solver-decided: (4) the compiled secure radix sort vs the plaintext stable sort on concrete tables with duplicate keys, odd/even key widths, multi-dimensional payloads "
    "(the solver does not finish on the shuffle protocols even for 2 rows x 1 key bit). The plaintext Sort semantics is the interpreter's closed-form stable sort, validated against the real evaluator on every program.",
    G_NOTE, "SMT (z3 QF_BV) equivalence vs closed-form stable-sort / permutation spec; concrete differential for the compiled secure sort", "DESIGN.md §5 C18")

NOT_APPLICABLE["C11"] = "API histories over Arc/AtomicRefCell/HashMap state with format!-built errors: not encodable (Kani: 580 s/15 GB on a 3-call concrete history); a hand model would not be the real code"
NOT_APPLICABLE["C12"] = "serde_json/typetag parsing of several-hundred-byte strings followed by the graph-building API: out of reach of bit-precise symbolic execution; round-trip equality has no input to quantify besides the program"
NOT_APPLICABLE["C15"] = ("between random.rs and the AES block function sits the `cipher` crate's generic block-mode machinery (GenericArray::generate loops of 16, ParBlocks closures); with the block function stubbed (aes::soft::fixslice::aes128_encrypt) "
                         "every harness through PrfSession needs unwind >= 17 on all loops incl. the rejection loops: probed harnesses (bounded draw, buffer hand-over, permutation) ran out of memory or did not finish in 25-40 min; trait-method stubbing of BlockEncrypt is not supported by Kani 0.68; "
                         "'different keys give unrelated values' is a cryptographic assumption. Harness sources kept in kani/src/h_random.rs")
NOT_APPLICABLE["C19"] = "plaintext join is HashMap<String,..>/SipHash code, secure join is LowMC OPRF + cuckoo hashing with a 100-round data-dependent loop; correctness is probabilistic; not encodable within meaningful bounds"
NOT_APPLICABLE["C20"] = "oracle is a real-valued transcendental function and the implementations are chains of 64-bit fixed-point multiplications: either a real/float statement (outside QF_BV) or an exhaustive sweep (enumeration, not solving)"
