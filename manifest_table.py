# Table of claimed checks; executed by mkmanifest.py (chk, CHECKS, NOT_APPLICABLE in scope).
HOOKS = dict(
    guard="verif-hooks (cargo feature of ciphercore-base)",
    enable="harness crates depend on /repo/ciphercore-base by path with features=[\"verif-hooks\"]; the graph-SMT driver needs no hooks",
    baseline_off_cmd="cd /repo && cargo test --workspace --no-fail-fast --offline",
    source_commits=[],
    add_only=True,
)
ENGINES = [
    dict(name="graph-smt", path="driver/ + symg/",
         serves_properties=["C01", "C02", "C06", "C16", "C17"],
         kind_free_text="Rust driver linked against /repo's current tree runs the real instantiate/inline/compile/optimize functions and dumps the term DAGs they build; "
                        "a Python interpreter turns each DAG 1:1 into z3 bit-vector terms (inputs, randomness, junk symbolic) and z3/cvc5 decide the property; models are replayed on the real evaluator"),
]
NOTES = "See DESIGN.md. Exit codes: 0 held within the stated bounds, 1 VIOLATION (replayed natively), 2 inconclusive (solver unknown/timeout, unsupported op, translator-validation mismatch)."

G_NOTE = ("Trusted: the SMT semantics of the primitive operations in symg/interp.py (validated on every checked graph against the real SimpleEvaluator node by node on boundary vectors), "
          "z3 5.1 / cvc5 1.0, the driver's dump. Programs are generated (bounded families), inputs are decided by the solver.")

chk("C01", "graph-smt", "translation_validation",
    "Bounded translation validation of the MPC compiler: for each generated source graph (43 single-operation/composition templates, Call/Iterate wrappers in all 3 inline modes, 40 random typed DAGs; "
    "8-bit twin plus one wide scalar type each; covering rotation of owner vectors in {0,1,2,public,shared}^n, all 8 output sets) the real compile_context output is symbolically executed and the solver shows "
    "revealed output (or sum of the three output shares) = source output for ALL inputs, ALL input sharings and ALL Random/PRF values. Programs are sampled, values are not.",
    G_NOTE + " PRF idealised as arbitrary outputs under (key, iv, type) congruence.",
    "SMT (z3, sum-of-monomials normalisation + QF_BV) equivalence of source graph vs real compiler output, inputs/sharings/randomness symbolic", "DESIGN.md §5 C01")

chk("C02", "graph-smt", "translation_validation",
    "Three-view symbolic execution of the real compile_context output for the same program families as C01: each party evaluates the whole graph on its own inputs, fresh junk for everything it does not own, "
    "its own random tape, and receives a value only at Send-annotated nodes; the solver shows that every designated output party's output equals the source result (for shared outputs: neighbour consistency and "
    "reconstruction) for ALL inputs, junk and tapes. A dropped or mis-addressed Send, a PRF under a key the party does not hold or a share read from the slot the party does not hold yields a model that is replayed "
    "in a three-party executor built on the real Evaluator::evaluate_node. Non-recipient queries must be sat (vacuity witness).",
    G_NOTE + " Execution model as stated in the property's observe_at (not stored in the repository).",
    "SMT (z3) three-view symbolic execution of the compiled graph with junk and per-party tapes universally quantified", "DESIGN.md §5 C02")

chk("C06", "graph-smt", "translation_validation",
    "Bounded translation validation of optimize_context: for each generated inlined graph (grammar biased to what the four passes rewrite: constants, tuple/vector/zip/a2v getters, A2B/B2A chains, duplicates, "
    "dangling nodes, unused inputs, Send-annotated NOPs, Random/PRF) the solver shows for ALL inputs and random draws that the output and every node the returned mapping still maps compute the same value, and (three-view) "
    "that every party's output is unchanged, which is what keeping Send markers on same-valued nodes means; input interface, mapped-node types and recorded-vs-reinferred types (serde round trip) are compared on the dumps.",
    G_NOTE, "SMT (z3 QF_BV) per-mapped-node equivalence of graph vs real optimiser output, inputs and randomness symbolic", "DESIGN.md §5 C06")

chk("C16", "graph-smt", "other",
    "Bounded symbolic equivalence: for each comparison/min/max operation, signedness, bit width (1..17,31..33,63,64,128 quick; 1..64,96,127,128 thorough), broadcasting pattern and inline mode, the graph built by the real instantiate code is "
    "symbolically executed and the solver shows it equals bvult/bvslt/.../ite on the encoded integers for ALL operand values (unsat), i.e. exhaustive in the operands at every listed width. Not a proof over all widths.",
    G_NOTE, "SMT (z3 QF_BV) equivalence of the real generated circuit vs bit-vector spec, all operands symbolic", "DESIGN.md §5 C16")

chk("C17", "graph-smt", "other",
    "Bounded symbolic equivalence: BinaryAdd (widths 1..128 powers of two, with and without carry-out) vs bvadd and the (w+1)-th sum bit; Mux vs ite for bit and integer choices with broadcasting; "
    "Clip2K vs clamp for all k at 8/16 bits and boundary k at 32/64 bits (all k thorough); LongDivision signed/unsigned at 4 and 8 bits vs the floored-division lemma. "
    "All operands are symbolic; unsat = exact for every operand at that width. Wider long division is outside the bound (solver does not finish).",
    G_NOTE, "SMT (z3 QF_BV) equivalence of the real generated circuit vs bit-vector spec, all operands symbolic", "DESIGN.md §5 C17")

_pending = "check not built yet in this session; see DESIGN.md for the plan"
for p in ["C03","C04","C05","C07","C08","C09","C10","C13","C14","C15","C18"]:
    NOT_APPLICABLE[p] = _pending
NOT_APPLICABLE["C11"] = "API histories over Arc/AtomicRefCell/HashMap state with format!-built errors: not encodable (Kani: 580 s/15 GB on a 3-call concrete history); a hand model would not be the real code"
NOT_APPLICABLE["C12"] = "serde_json/typetag parsing of several-hundred-byte strings followed by the graph-building API: out of reach of bit-precise symbolic execution; round-trip equality has no input to quantify besides the program"
NOT_APPLICABLE["C19"] = "plaintext join is HashMap<String,..>/SipHash code, secure join is LowMC OPRF + cuckoo hashing with a 100-round data-dependent loop; correctness is probabilistic; not encodable within meaningful bounds"
NOT_APPLICABLE["C20"] = "oracle is a real-valued transcendental function and the implementations are chains of 64-bit fixed-point multiplications: either a real/float statement (outside QF_BV) or an exhaustive sweep (enumeration, not solving)"
